#!/opt/veriftools/pyvenv/bin/python
"""setup_cmd: sanity of the tool chain (z3 importable, real build importable, stand-in numpy agrees with real numpy on a
small script, the import hook loads /repo's sources).  Nothing is compiled or downloaded."""
import json
import os
import subprocess
import sys

sys.path.insert(0, os.path.dirname(os.path.abspath(__file__)))


def main():
    import z3

    assert z3.get_version_string()
    import nusym

    nusym.install()
    import nucs.propagators.propagators as P
    from nusym import core

    # the stand-in must reproduce a few repository unit-test vectors concretely
    d = core.array([[0, 2], [0, 2], [0, 2]], dtype=core.DType("int32"))
    core.ENGINE._start_path([])
    st = P.COMPUTE_DOMAINS_FCTS[P.ALG_ALLDIFFERENT](d, core.array([], dtype=core.DType("int32")))
    assert st == 1 and d.tolist() == [[0, 2], [0, 2], [0, 2]], (st, d.tolist())
    d = core.array([[0, 0], [0, 2], [0, 2]], dtype=core.DType("int32"))
    st = P.COMPUTE_DOMAINS_FCTS[P.ALG_ALLDIFFERENT](d, core.array([], dtype=core.DType("int32")))
    assert st == 1 and d.tolist() == [[0, 0], [1, 2], [1, 2]], (st, d.tolist())
    env = dict(os.environ, NUMBA_DISABLE_JIT="1", NUSYM_REPO=nusym.REPO)
    env.pop("PYTHONPATH", None)
    out = subprocess.run(["/venv/bin/python", "-c", "import sys; sys.path.insert(0, %r); import numpy, nucs.propagators.propagators as P; print(len(P.COMPUTE_DOMAINS_FCTS))" % nusym.REPO], env=env, capture_output=True, text=True)
    assert out.returncode == 0, out.stderr
    print("selftest ok: z3", z3.get_version_string(), "propagators", out.stdout.strip())
    return 0


if __name__ == "__main__":
    sys.exit(main())
