#!/opt/veriftools/pyvenv/bin/python
"""check.py <property id> [--tier quick|thorough]   (run with python3-vt; see DESIGN.md section 8)"""
import argparse
import os
import sys

sys.path.insert(0, os.path.dirname(os.path.abspath(__file__)))


def main():
    ap = argparse.ArgumentParser()
    ap.add_argument("pid")
    ap.add_argument("--tier", default=os.environ.get("VERIF_TIER", "quick"))
    ap.add_argument("--only", default=None, help="restrict to some constraint types / sub-harnesses (development aid)")
    a = ap.parse_args()
    seed = int(os.environ.get("VERIF_SEED", "0"))
    import nusym

    nusym.install()
    import checks.registry as reg

    fn = reg.CHECKS.get(a.pid)
    if fn is None:
        print(f"no check for {a.pid}")
        return 2
    return fn(a.tier, seed, a.only.split(",") if a.only else None)


if __name__ == "__main__":
    sys.exit(main())
