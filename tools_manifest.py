#!/usr/bin/env python3
"""regenerates MANIFEST.json from the table below (development aid; MANIFEST.json is the committed interface)"""
import json

PY = "python3-vt"
TECH = "bounded symbolic execution of the real nucs source (z3 terms in place of ints, stand-in numpy/numba), property as z3 query per path, counterexamples replayed on the real NumPy+Numba build"

CLAIMED = {
    "C05": dict(level="model_checking", ref="3/C05", text="every feasible path of one real compute_domains_* call on a symbolic box (unbounded integer bounds, symbolic parameters, concrete small arity) is explored; on each path z3 decides that no supported tuple is lost, the result is a non-empty sub-box, and inconsistency is only reported without support", note="arity <= 3-4 and the parameter shapes listed in the evidence; values within +-2^30; stand-in numpy validated per path against the real build; Numba assumed faithful"),
    "C06": dict(level="model_checking", ref="3/C06", text="same exploration as C05; z3 decides on every path that a ground box is rejected iff it violates the documented relation and that a box collapsed to a point satisfies it", note="as C05; no_sub_cycle/scc asked on permutations only"),
    "C14": dict(level="model_checking", ref="3/C14", text="same exploration; z3 decides that each output bound is attained by a supported tuple (finite expansion over a window of D+1 consecutive values whose position is symbolic), that no supported tuple is lost, that a second call changes nothing, and that affine_eq equals the one-round interval reference", note="hull queries hold for boxes inside a window [L, L+D], L symbolic, D=2..3 (quick) / 3..4 (thorough); as C05 otherwise"),
}

NOT_YET = {}


def main():
    props = [json.loads(l) for l in open("properties.jsonl")]
    checks = []
    for p in props:
        pid = p["id"]
        if pid in CLAIMED:
            c = CLAIMED[pid]
            checks.append(
                dict(
                    property_id=pid,
                    quick_cmd=f"{PY} check.py {pid} --tier quick",
                    thorough_cmd=f"{PY} check.py {pid} --tier thorough",
                    evidence_file=f"/verif/evidence/{pid}.json",
                    replay_cmd_template="/venv/bin/python replay.py {path}",
                    engine="nusym",
                    level_claimed=dict(category=c["level"], text=c["text"], design_ref=c["ref"]),
                    level_note=c["note"],
                    technique=c.get("technique", TECH),
                )
            )
    na = [dict(property_id=p["id"], reason=NOT_YET.get(p["id"], "check not built yet in this round (see DESIGN.md section 7 for the construction order)")) for p in props if p["id"] not in CLAIMED]
    man = dict(
        version=1,
        setup_cmd="python3-vt selftest.py",
        hooks=dict(guard="NUCS_VERIF", enable="none needed: the real sources are loaded unmodified through an import hook (NUSYM_REPO=/repo)", baseline_off_cmd="cd /repo && /venv/bin/python -m pytest -ra -q -p no:cacheprovider --timeout=900 --continue-on-collection-errors", source_commits=[], add_only=True),
        engines=[dict(name="nusym", path="/verif/nusym", serves_properties=sorted(CLAIMED), kind_free_text="symbolic executor for the real nucs Python sources: z3-backed ints/bools, pure-Python numpy stand-in with view semantics, identity njit, AST loop guards, stateless DFS over decision prefixes on 16 processes")],
        checks=checks,
        notes="exit codes: 0 held, 1 reproduced violation, 2 inconclusive/harness error. Known genuine defects are listed in known_findings.json.",
        not_applicable=na,
    )
    json.dump(man, open("MANIFEST.json", "w"), indent=1)


if __name__ == "__main__":
    main()
