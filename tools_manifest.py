#!/usr/bin/env python3
"""regenerates MANIFEST.json from the table below (development aid; MANIFEST.json is the committed interface)"""
import json

PY = "python3-vt"
TECH = "bounded symbolic execution of the real nucs source (z3 terms in place of ints, stand-in numpy/numba), property as z3 query per path, counterexamples replayed on the real NumPy+Numba build"

CLAIMED = {
    "C01": dict(level="model_checking", ref="3/C01", text="the real Problem/BacktrackSolver code (constructor, init, solve generator, optimize loop, both consistency algorithms, all heuristics, backtrack, the worker entry points of the multiprocessing solver) is executed symbolically on micro-models with symbolic bounds/offsets/parameters; every feasible path is a complete search; z3 decides per path that every reported vector lies in its domains, respects the offsets and satisfies every posted relation", note="bounded: 1-4 shared domains, <= 3 propagators, width <= 3, configurations by pairwise coverage (thorough: full product on single-constraint models); the composition argument of DESIGN 3/C01 links these to larger models; stand-in numpy validated per path against the real build; Numba assumed faithful"),
    "C02": dict(level="model_checking", ref="3/C02", text="same runs; per path z3 decides that the yielded vectors are pairwise different and that no assignment of the box satisfying all relations is missing (fresh tuple query); every posting order of the constraints and the configuration rotation are run against the same semantic set", note="as C01; all domains are decision domains"),
    "C03": dict(level="model_checking", ref="3/C03", text="the real optimize()/optimize_and_queue() loops run symbolically with an unwinding assertion on the number of solve_one calls; per path z3 decides None <=> infeasible and optimality of the returned vector against the semantic set", note="as C01; objectives: every variable of 13 micro-models, own/shared domain, under equality, inequality only, or nothing"),
    "C04": dict(level="model_checking", ref="3/C04", text="unwinding assertions derived from the documented complexity are checked on every path: while-iterations per compute_domains call, propagators popped per pass, solve_one calls per optimisation, iterations per whole run; the variable heuristics are shown never to answer 'none' while a decision variable is free (symbolic cost tables with ties); a path exhausting a budget is replayed on the real build under a watchdog", note="bounded sizes as C01/C05; termination beyond the bounds is not claimed; known finding: gcc with a zero upper capacity"),
    "C05": dict(level="model_checking", ref="3/C05", text="every feasible path of one real compute_domains_* call on a symbolic box (unbounded integer bounds, symbolic parameters, concrete small arity) is explored; on each path z3 decides that no supported tuple is lost, the result is a non-empty sub-box, and inconsistency is only reported without support", note="arity <= 3-4 and the parameter shapes listed in the evidence; values within +-2^30; stand-in numpy validated per path against the real build; Numba assumed faithful"),
    "C06": dict(level="model_checking", ref="3/C06", text="same exploration as C05; z3 decides on every path that a ground box is rejected iff it violates the documented relation and that a box collapsed to a point satisfies it", note="as C05; no_sub_cycle/scc asked on permutations only; known finding: gcc with a zero upper capacity"),
    "C07": dict(level="model_checking", ref="3/C07", text="same exploration; on every path answering ENTAILMENT z3 decides that every tuple of the returned box satisfies the relation; engine level: in whole runs (enumeration and optimisation with its restarts) z3 decides at every entry of a consistency algorithm that each constraint disabled at the current level is entailed by the current box; the disable/re-enable history is covered by the choice-point step of C09 (flag rows copied on push, restored on backtrack) and the pass-level frame check of C08", note="as C05"),
    "C08": dict(level="model_checking", ref="3/C08", text="four layers on real code: trigger-sufficiency lemma per narrow-mask propagator (run for every constraint; the mask is read from the real get_triggers_* and the lemma is trivial when every bound is watched) (two-box query, unbounded values), monotonicity lemma per exact propagator, one iteration of the real propagation loop from an arbitrary state satisfying the queue invariant (cut harness), and a probe after every consistency pass of the whole runs (domains shrink, enabled propagators stable at exit, lower levels untouched)", note="<= 3 propagators / <= 4 domains; 'largest fixpoint whatever the order' is obtained with the cited chaotic-iteration theorem (not mechanised); known findings: affine_eq is not idempotent and not re-queued on its own changes; no_sub_cycle prunes on bounds it does not watch"),
    "C09": dict(level="model_checking", ref="3/C09", text="one real branching step of each value heuristic from an arbitrary stack state (every cell an unconstrained symbol), then the real backtrack() down to the start level; z3 decides partition, frame, announced and recorded events, restoration and re-queueing", note="stack height 5-6, start level 0-3, 2 domains, 2 propagators; domain [a,b] unbounded; min_cost with a symbolic cost table (ties)"),
    "C10": dict(level="model_checking", ref="3/C10", text="from one symbolic search state the real shaving algorithm and the real bound consistency algorithm are run on identical copies: stack height, frame, containment, no solution lost, failure only without solution; shave_bound alone with the propagation pass replaced by its contract; whole runs with shaving compared with the semantic set", note="states: root and after one branch; micro-models as C01; shaving is experimental in the repository"),
    "C11": dict(level="model_checking", ref="3/C11", text="the real MultiprocessingSolver.solve/minimize/maximize/get_statistics run against a symbolic scheduler: every interleaving of the workers' streams (lengths, objective values and statistics symbolic) is a path; z3 decides multiset union, optimality, completion and the aggregation of the final statistics", note="<= 2 workers x 2 solutions (quick), 3 x 2 (thorough); Queue assumed FIFO per producer; the OS is not in the claim; sequential equivalence by composition with C12 and C02"),
    "C12": dict(level="model_checking", ref="3/C12", text="the real Problem.split on six variable/shared-domain layouts with [a,b] unbounded and k symbolic: original unchanged, sub-problems differ only in that shared domain, parts consecutive, disjoint, non-empty, union [a,b]", note="k <= 8 (12); <= 3 variables; 'union of the solution sets' by composition with C02"),
    "C13": dict(level="model_checking", ref="3/C13", text="Problem.init flattening lemma under every posting order (slices, offsets, parameters, union of trigger masks, second init identical), the model-building API (add_variable / add_variables write down the model they are given: index, offset, domain per variable, number of shared domains, returned index, no orphan shared domain), translation lemma p(B+c) = p(B)+c with c symbolic and unbounded, twin micro-models (shared domain vs linked variables, constraint posted twice, added dummy / always-true constraint, permuted constraints and variables) each decided equal to the common semantic set", note="micro-models only; 'shipped examples at sizes far beyond brute force' is outside the claim"),
    "C14": dict(level="model_checking", ref="3/C14", text="same exploration as C05; z3 decides that each output bound is attained by a supported tuple (finite expansion over a window of D+1 consecutive values whose position is symbolic), that no supported tuple is lost, that a second call changes nothing, and that affine_eq equals the one-round interval reference", note="hull queries hold for boxes inside a window [L, L+D], L symbolic, D=1..3 (quick) / ..4 (thorough); known finding: gcc with a zero upper capacity"),
    "C15": dict(level="other", ref="3/C15", text="interpreted semantics only: no result term mentions a cell of an np.empty array and no path condition does (control flow decided by uninitialised memory; replayed with np.empty returning 0x00 / 0xff bytes); filtering results are equal for every permutation argsort may return on ties; a solver created after a history (other solvers abandoned/exhausted, an optimisation, registrations, split, second init) yields the same solution sequence and statistics as a fresh one (z3 equality of the terms)", note="JIT-vs-interpreted equivalence is NOT solver-decided here (no tool executes Numba's LLVM IR symbolically); both-mode replays of every path witness are supporting evidence only; histories of length <= 2"),
    "C16": dict(level="model_checking", ref="3/C16", text="every subscript executed on every explored path of the propagator, heuristic and whole-run harnesses is an obligation discharged by z3 (symbolic index) or at once (concrete index)", note="n, m within the catalogues; contracts on successor values, gcc values and cost tables assumed"),
    "C17": dict(level="model_checking", ref="3/C17", text="ghost counters maintained by interposed wrappers (propagator executions and outcomes, domain changes, choices, resumed choice points, passes, depth) are compared with the reported statistics at the end of enumeration, partial enumeration and optimisation on every path; the conservation laws are asserted for exhaustive BC runs; sums over workers in C11", note="micro-models as C01; with shaving only the propagator and pass counters are compared"),
    "C18": dict(level="fault_enumeration", ref="3/C18", text="the real reducer against the symbolic scheduler with a death point per worker (any message index, incl. before the first message and just before the marker) and spurious time-outs: no combination reaches the blocking state; confirmed with real killed processes in the replay", note="<= 2 workers (quick) / 3 (thorough); a dead worker puts nothing more, what it put is delivered"),
    "C19": dict(level="model_checking", ref="3/C19", text="one search step of the real solve_one from an arbitrary stack level (symbolic) for heights up to 256, the shaving step, the constructor with heights around 256, and end-to-end chains of free variables with symbolic widths: every path raises from the source or discharges all index/dtype obligations and enumerates the exact product", note="8/16-bit limits on the NUMBER of variables/propagators/parameters (Problem.init) are outside: len() cannot be symbolic"),
    "C20": dict(level="other", ref="3/C20", text="model-level: the real constructors of the 16 shipped models are executed, (knapsack also on symbolic volumes/capacity; the Golomb custom pruning step symbolically from every state of the search invariant, advisory) the constraint network is extracted and z3 decides network => definition, definition => network, symmetry breaking sound and satisfiability/optimum preserving, counts and optima equal to the literature values; the real compiled solver is then run on every instance under three configurations", note="instance sizes listed in the evidence; the search itself is covered by C01/C02 on micro-models"),
}

NOT_YET = {}


def main():
    props = [json.loads(l) for l in open("properties.jsonl")]
    checks = []
    for p in props:
        pid = p["id"]
        if pid in CLAIMED:
            c = CLAIMED[pid]
            checks.append(
                dict(
                    property_id=pid,
                    quick_cmd=f"{PY} check.py {pid} --tier quick",
                    thorough_cmd=f"{PY} check.py {pid} --tier thorough",
                    evidence_file=f"/verif/evidence/{pid}.json",
                    replay_cmd_template="/venv/bin/python replay.py {path}",
                    engine="nusym",
                    level_claimed=dict(category=c["level"], text=c["text"], design_ref=c["ref"]),
                    level_note=c["note"],
                    technique=c.get("technique", TECH),
                )
            )
    na = [dict(property_id=p["id"], reason=NOT_YET.get(p["id"], "check not built yet in this round (see DESIGN.md section 7 for the construction order)")) for p in props if p["id"] not in CLAIMED]
    man = dict(
        version=1,
        setup_cmd="python3-vt selftest.py",
        hooks=dict(guard="NUCS_VERIF", enable="none needed: the real sources are loaded unmodified through an import hook (NUSYM_REPO=/repo)", baseline_off_cmd="cd /repo && /venv/bin/python -m pytest -ra -q -p no:cacheprovider --timeout=900 --continue-on-collection-errors", source_commits=[], add_only=True),
        engines=[dict(name="nusym", path="/verif/nusym", serves_properties=sorted(CLAIMED), kind_free_text="symbolic executor for the real nucs Python sources: z3-backed ints/bools, pure-Python numpy stand-in with view semantics, identity njit, AST loop guards, stateless DFS over decision prefixes on 16 processes")],
        checks=checks,
        notes="exit codes: 0 held, 1 reproduced violation, 2 inconclusive/harness error. Known genuine defects are listed in known_findings.json.",
        not_applicable=na,
    )
    json.dump(man, open("MANIFEST.json", "w"), indent=1)


if __name__ == "__main__":
    main()
