"""Lemma harnesses on the real code (two-box / two-run queries, values unbounded):

trigger  (C08)  trigger sufficiency: p stable on B; B' <= B differs from B only in bounds p does not watch (and no
                variable whose GROUND it watches becomes instantiated)  ==>  p is stable on B' too.
mono     (C08)  monotonicity of an exact propagator: B' <= B  ==>  p(B') <= p(B), and p(B) fails => p(B') fails.
transl   (C13)  translation: p(B + c) = p(B) + c for the translation-invariant constraints (c symbolic, unbounded).
init     (C13)  Problem.init flattening: slices of props_* equal the posted data, triggers = union of declared masks,
                a second init() yields identical arrays.
bcstep   (C08)  one iteration of the real bound_consistency_algorithm loop from an arbitrary queue/flag state that
                satisfies the queue invariant: the invariant is preserved, only the current level is written, the
                domains only shrink.
"""
import itertools

import z3

from . import core
from .core import ENGINE, Cut, Obligation, SArray, SymBool, SymInt, as_z3bool, as_z3int, DType
from .explore import register
from .h_prop import BOOL_ALGS, LINEAR, PERM_ALGS, alg_index, contract, mk_params, propagators_module, zi
from .relations import AND, OR

MIN_E, MAX_E, GROUND_E = 1, 2, 4


def _box(E, n, tag, B):
    lo = [z3.Int(f"{tag}lo{i}") for i in range(n)]
    hi = [z3.Int(f"{tag}hi{i}") for i in range(n)]
    for i in range(n):
        E.solver.add(lo[i] <= hi[i], lo[i] >= -B, hi[i] <= B)
    return lo, hi


def _run(fn, lo, hi, par):
    n = len(lo)
    dom = SArray([SymInt(v) if not isinstance(v, int) else v for pair in zip(lo, hi) for v in pair], (n, 2), dtype="int32")
    st = int(fn(dom, par))
    out = dom.tolist()
    return st, [(as_z3int(o[0]), as_z3int(o[1])) for o in out]


def _wit(E, m, lo, hi, pz):
    return dict(box=[[E.ev(m, a), E.ev(m, b)] for a, b in zip(lo, hi)], params=[E.ev(m, zi(p)) for p in pz])


@register("lemma_trigger")
def make_trigger(cfg, known=()):
    alg, n = cfg["alg"], cfg["n"]
    known = [k for k in known if k.get("harness") == "lemma" and k.get("alg") == alg]
    B = (1 << 26) if alg in LINEAR else (1 << 30)

    def body(E):
        P = propagators_module()
        ai = alg_index(alg)
        fn = P.COMPUTE_DOMAINS_FCTS[ai]
        pz = mk_params(E, cfg["params"], B)
        par = core.array([SymInt(p) if not isinstance(p, int) else p for p in pz], dtype=DType("int32"))
        mask = P.GET_TRIGGERS_FCTS[ai](n, par)
        mask = [int(mask[i]) if not isinstance(mask[i], SymInt) else E.concretize(mask[i].e) for i in range(n)]
        if all((mk & (MIN_E | MAX_E)) == (MIN_E | MAX_E) for mk in mask):
            # every bound of every variable is watched: B' = B, nothing to show (the masks are read from the real get_triggers_*
            # on every run, so a mask that gets narrower is explored)
            E.acc.count("full-mask")
            return
        lo, hi = _box(E, n, "", B)
        lo2, hi2 = _box(E, n, "b", B)
        E.solver.add(contract(cfg, lo, hi, pz), contract(cfg, lo2, hi2, pz))
        for i in range(n):
            E.solver.add(lo2[i] >= lo[i], hi2[i] <= hi[i])
            if mask[i] & MIN_E:
                E.solver.add(lo2[i] == lo[i])
            if mask[i] & MAX_E:
                E.solver.add(hi2[i] == hi[i])
            if mask[i] & GROUND_E:
                E.solver.add(z3.Implies(lo2[i] == hi2[i], lo[i] == hi[i]))
        st, out = _run(fn, lo, hi, par)
        if st == 0:
            E.acc.count("B-not-stable")
            return
        E.solver.add(AND([z3.And(a == l, b == h) for (a, b), l, h in zip(out, lo, hi)]))  # p stable on B
        if not E.check():
            E.acc.count("B-not-stable")
            return
        E.acc.count("stable-on-B")
        st2, out2 = _run(fn, lo2, hi2, par)

        def rec(kind, m):
            v = dict(prop="C08", kind=kind, alg=alg, n=n, cls=None, harness="lemma", lemma="trigger", mask=mask, **_wit(E, m, lo, hi, pz))
            v["box2"] = [[E.ev(m, a), E.ev(m, b)] for a, b in zip(lo2, hi2)]
            ks = [k for k in known if k["kind"] == kind]
            if ks:
                v["cls"] = ks[0]["cls"]
            E.acc.violation(v)

        if st2 == 0:
            if E.check():
                rec("unwatched-bound-change-makes-it-fail", E.model())
            return
        if alg == "no_sub_cycle":
            # only its verdict on instantiated variables is claimed (it reacts to instantiation by design)
            ch = OR([z3.And(lo2[i] == hi2[i], z3.Or(out2[i][0] != lo2[i], out2[i][1] != hi2[i])) for i in range(n)])
        else:
            ch = OR([z3.Or(a != l, b != h) for (a, b), l, h in zip(out2, lo2, hi2)])
        if E.query(ch):
            rec("unwatched-bound-change-enables-pruning", E.model())

    return body


@register("lemma_mono")
def make_mono(cfg):
    alg, n = cfg["alg"], cfg["n"]
    B = (1 << 26) if alg in LINEAR else (1 << 30)

    def body(E):
        P = propagators_module()
        fn = P.COMPUTE_DOMAINS_FCTS[alg_index(alg)]
        pz = mk_params(E, cfg["params"], B)
        par = core.array([SymInt(p) if not isinstance(p, int) else p for p in pz], dtype=DType("int32"))
        lo, hi = _box(E, n, "", B)
        lo2, hi2 = _box(E, n, "b", B)
        E.solver.add(contract(cfg, lo, hi, pz), contract(cfg, lo2, hi2, pz))
        for i in range(n):
            E.solver.add(lo2[i] >= lo[i], hi2[i] <= hi[i])
        st, out = _run(fn, lo, hi, par)
        st2, out2 = _run(fn, lo2, hi2, par)
        E.acc.count(f"status:{st}/{st2}")

        def rec(kind, m):
            v = dict(prop="C08", kind=kind, alg=alg, n=n, cls=None, harness="lemma", lemma="mono", **_wit(E, m, lo, hi, pz))
            v["box2"] = [[E.ev(m, a), E.ev(m, b)] for a, b in zip(lo2, hi2)]
            E.acc.violation(v)

        if st == 0:
            if st2 != 0 and E.check():
                rec("fails-on-box-but-not-on-sub-box", E.model())
            return
        if st2 == 0:
            return
        bad = OR([z3.Or(a2 < a, b2 > b) for (a, b), (a2, b2) in zip(out, out2)])
        if E.query(bad):
            rec("not-monotone", E.model())

    return body


TRANSLATION_INVARIANT = {
    # alg: how parameters move with a translation of all values by c
    "alldifferent": lambda pz, c, n: pz,
    "lexicographic_leq": lambda pz, c, n: pz,
    "max_eq": lambda pz, c, n: pz,
    "min_eq": lambda pz, c, n: pz,
    "max_leq": lambda pz, c, n: pz,
    "min_geq": lambda pz, c, n: pz,
    "count_eq": None,  # the counter is not translated: handled below
    "affine_eq": lambda pz, c, n: pz[:-1] + [zi(pz[-1]) + c * sum(pz[:-1])],
    "affine_leq": lambda pz, c, n: pz[:-1] + [zi(pz[-1]) + c * sum(pz[:-1])],
    "affine_geq": lambda pz, c, n: pz[:-1] + [zi(pz[-1]) + c * sum(pz[:-1])],
    "relation": lambda pz, c, n: [zi(p) + c for p in pz],
    "exactly_eq": lambda pz, c, n: [zi(pz[0]) + c, pz[1]],
    "gcc": lambda pz, c, n: [zi(pz[0]) + c] + pz[1:],
    "element_lic": None,
}


@register("lemma_transl")
def make_transl(cfg):
    alg, n = cfg["alg"], cfg["n"]
    B = (1 << 24) if alg in LINEAR else (1 << 28)

    def body(E):
        P = propagators_module()
        fn = P.COMPUTE_DOMAINS_FCTS[alg_index(alg)]
        pz = mk_params(E, cfg["params"], B)
        c = z3.Int("c")
        E.solver.add(c >= -B, c <= B)
        lo, hi = _box(E, n, "", B)
        E.solver.add(contract(cfg, lo, hi, pz))
        pz2 = TRANSLATION_INVARIANT[alg](pz, c, n)
        par = core.array([SymInt(p) if not isinstance(p, int) else p for p in pz], dtype=DType("int32"))
        par2 = core.array([SymInt(p) if not isinstance(p, int) else p for p in pz2], dtype=DType("int32"))
        st, out = _run(fn, lo, hi, par)
        st2, out2 = _run(fn, [l + c for l in lo], [h + c for h in hi], par2)
        E.acc.count(f"status:{st}/{st2}")

        def rec(kind, m):
            v = dict(prop="C13", kind=kind, alg=alg, n=n, cls=None, harness="lemma", lemma="transl", c=E.ev(m, c), **_wit(E, m, lo, hi, pz))
            E.acc.violation(v)

        if st != st2:
            if E.check():
                rec("status-changes-under-translation", E.model())
            return
        if st == 0:
            return
        bad = OR([z3.Or(a2 != a + c, b2 != b + c) for (a, b), (a2, b2) in zip(out, out2)])
        if E.query(bad):
            rec("result-not-translated", E.model())

    return body


@register("lemma_init")
def make_init(model, order=None):
    """Problem.init flattening on a micro-model of h_solve.MODELS (symbolic offsets / parameters)"""

    def body(E):
        from . import h_solve

        H, P, BS, BCA, CP, CA, SH, Problem = h_solve._mods()
        ctx = h_solve.Ctx(E, model)
        md = ctx.md
        pb = ctx.build(Problem, P, order)
        posted = list(pb.propagators)
        pb.init()

        def rec(kind, **kw):
            m = E.model() if E.check() else None
            v = dict(prop="C13", kind=kind, site=f"Problem.init/{model}", cls=None, harness="lemma", lemma="init", order=order)
            if m is not None:
                v.update(ctx.witness(m))
            v.update(kw)
            E.acc.violation(v)

        # the propagators are sorted by a stable sort on their complexity: find each posted one by identity
        np_ = len(posted)
        if int(pb.propagator_nb) != np_ or len(pb.propagators) != np_:
            rec("propagator-count")
            return
        used = set()
        for q, prop in enumerate(pb.propagators):
            src = [i for i, p in enumerate(posted) if p is prop and i not in used]
            if not src:
                rec("propagator-lost-or-duplicated", index=q)
                return
            used.add(src[0])
            pv, alg, params = prop
            vs, ve = int(pb.var_bounds[q, 0]), int(pb.var_bounds[q, 1])
            ps, pe = int(pb.param_bounds[q, 0]), int(pb.param_bounds[q, 1])
            if ve - vs != len(pv) or pe - ps != len(params) or int(pb.algorithms[q]) != alg:
                rec("bounds-or-algorithm-mismatch", index=q)
                continue
            bad = []
            for k, v in enumerate(pv):
                bad.append(z3.BoolVal(int(pb.props_dom_indices[vs + k]) != md["vars"][v][0]))
                bad.append(as_z3int(pb.props_dom_offsets[vs + k, 0]) != as_z3int(ctx.sym(ctx.offs[v])))
            for k, prm in enumerate(params):
                bad.append(as_z3int(pb.props_parameters[ps + k]) != as_z3int(prm))
            if E.query(OR(bad)):
                rec("flattened-slices-differ-from-posted-data", index=q)
            declared = P.GET_TRIGGERS_FCTS[alg](len(pv), pb.props_parameters[ps:pe])
            want = {}
            for k, v in enumerate(pv):
                d = md["vars"][v][0]
                t = declared[k]
                t = int(t) if not isinstance(t, SymInt) else E.concretize(t.e)
                want[d] = want.get(d, 0) | t
            for d in range(md["doms"]):
                got = pb.triggers[d, q]
                got = int(got) if not isinstance(got, SymInt) else E.concretize(got.e)
                if got != want.get(d, 0):
                    rec("trigger-mask-is-not-the-union-of-declared-masks", index=q, domain=d, got=got, want=want.get(d, 0))
        # complexity order (stable)
        cx = [P.GET_COMPLEXITY_FCTS[p[1]](len(p[0]), p[2]) for p in pb.propagators]
        if any(cx[i] > cx[i + 1] for i in range(len(cx) - 1)):
            rec("not-sorted-by-complexity")
        # a second init() yields identical arrays
        snap = {k: getattr(pb, k).copy() for k in ("algorithms", "var_bounds", "param_bounds", "props_dom_indices", "props_dom_offsets", "props_parameters", "triggers", "dom_indices_arr", "dom_offsets_arr")}
        pb.init()
        bad = []
        for k, a in snap.items():
            b = getattr(pb, k)
            if a.shape != b.shape:
                rec("second-init-changes-shape", array=k)
                continue
            bad += [as_z3int(x) != as_z3int(y) for x, y in zip(a.flat_values(), b.flat_values())]
        if E.query(OR(bad)):
            rec("second-init-differs")
        E.acc.count("init-ok")

    return body


@register("lemma_bcstep")
def make_bcstep(model, D=None):
    """one iteration of the real BC loop (pop_propagator cut at its second call) from a state satisfying the queue
    invariant Inv: every enabled propagator that is not queued is stable on the current domains (established by running
    it symbolically and assuming stability on the taken path); every queued propagator is enabled."""

    def body(E):
        from . import h_solve

        H, P, BS, BCA, CP, CA, SH, Problem = h_solve._mods()
        ctx = h_solve.Ctx(E, model, D)
        md = ctx.md
        nd = md["doms"]
        pb = ctx.build(Problem, P)
        pb.init()
        NP = int(pb.propagator_nb)
        if NP == 0:
            return
        height = 3
        top = E.choose(2, "top")
        i32, u16, u8, b8, i64 = DType("int32"), DType("uint16"), DType("uint8"), DType("bool"), DType("int64")
        stack = core.empty((height, nd, 2), i32)
        for d in range(nd):
            stack[top, d, 0] = SymInt(ctx.lo[d])
            stack[top, d, 1] = SymInt(ctx.hi[d])
        q = [z3.Bool(f"q{p}") for p in range(NP)]
        en = [z3.Bool(f"en{p}") for p in range(NP)]
        for p in range(NP):
            E.solver.add(z3.Implies(q[p], en[p]))
        trig = SArray([SymBool(b) for b in q], (NP,), dtype="bool")
        ne = core.empty((height, NP), b8)
        for p in range(NP):
            ne[top, p] = SymBool(en[p])
        du = core.zeros((height, 2), u16)
        st = core.array([top], dtype=u8)
        stats = core.zeros(13, i64)

        def run_prop(p, doms_row):
            vs, ve = int(pb.var_bounds[p, 0]), int(pb.var_bounds[p, 1])
            idx = pb.props_dom_indices[vs:ve]
            offs = pb.props_dom_offsets[vs:ve]
            doms = doms_row[idx] + offs
            snap = doms.copy()
            s_ = P.COMPUTE_DOMAINS_FCTS[int(pb.algorithms[p])](doms, pb.props_parameters[int(pb.param_bounds[p, 0]) : int(pb.param_bounds[p, 1])])
            same = AND([as_z3int(a) == as_z3int(b) for a, b in zip(doms.flat_values(), snap.flat_values())])
            return int(s_), same

        # establish Inv: enabled and not queued  ==>  stable (not failed, no change)
        for p in range(NP):
            if E.branch(z3.And(en[p], z3.Not(q[p]))):
                s_, same = run_prop(p, stack[top].copy())
                if s_ == 0:
                    raise core.Infeasible()
                if int(pb.algorithms[p]) != P.ALG_NO_SUB_CYCLE:
                    E.solver.add(same)
                    if not E.check():
                        raise core.Infeasible()
        before = stack.copy()
        ne_before = ne.copy()
        calls = [0]
        popped = [None]
        real_pop = BCA.pop_propagator

        def pop(tp, prev):
            calls[0] += 1
            if calls[0] == 2:
                raise Cut()
            r = real_pop(tp, prev)
            popped[0] = r
            return r

        BCA.pop_propagator = pop
        status = None
        try:
            status = BCA.bound_consistency_algorithm(stats, pb.algorithms, pb.var_bounds, pb.param_bounds, pb.dom_indices_arr, pb.dom_offsets_arr, pb.props_dom_indices, pb.props_dom_offsets, pb.props_parameters, pb.triggers, stack, ne, du, st, trig, core.empty(0), core.array(list(range(nd)), dtype=u16))
        except Cut:
            pass
        except Obligation as o:
            E.acc.count("obligation:" + o.kind)
            return
        finally:
            BCA.pop_propagator = real_pop

        def rec(kind, **kw):
            m = E.model() if E.check() else None
            v = dict(prop="C08", kind=kind, site=f"bc-step/{model}", cls=None, harness="lemma", lemma="bcstep", advisory=True, top=top)
            if m is not None:
                v.update(ctx.witness(m))
                v["queue"] = [E.ev(m, b) for b in q]
                v["enabled"] = [E.ev(m, b) for b in en]
            v.update(kw)
            E.acc.violation(v)

        E.acc.count("returned" if status is not None else "cut")
        # frame: other levels untouched
        bad = []
        for l in range(height):
            if l == top:
                continue
            bad += [as_z3int(a) != as_z3int(b) for a, b in zip(stack[l].flat_values(), before[l].flat_values())]
            bad += [as_z3bool(a) != as_z3bool(b) for a, b in zip(ne[l].flat_values(), ne_before[l].flat_values())]
        if E.query(OR(bad)):
            rec("step-writes-another-level")
        if status == 0:
            return
        # domains only shrink and stay non-empty
        cur = [(as_z3int(stack[top, d, 0]), as_z3int(stack[top, d, 1])) for d in range(nd)]
        if E.query(OR([z3.Not(z3.And(a >= ctx.lo[d], b <= ctx.hi[d], a <= b)) for d, (a, b) in enumerate(cur)])):
            rec("step-grows-or-empties-a-domain")
        if status is not None:
            solved = AND([a == b for a, b in cur])
            if E.query(solved != z3.BoolVal(status == 2)):
                rec("exit-status-vs-all-instantiated")
        just = popped[0]
        # wake-up events (authoritative: a local computation of the step, true from any state): every bound the step moved, and
        # 'became a single value', is announced to every enabled propagator that watches it on that domain (other than the one that ran)
        unannounced = []
        for d in range(nd):
            a, b = cur[d]
            moved_min, moved_max = a > ctx.lo[d], b < ctx.hi[d]
            for p in range(NP):
                if p == just:
                    continue
                msk = int(pb.triggers[d, p])
                conds = ([moved_min] if msk & 1 else []) + ([moved_max] if msk & 2 else []) + ([z3.And(z3.Or(moved_min, moved_max), a == b)] if msk & 4 else [])
                if conds:
                    unannounced.append(z3.And(OR(conds), as_z3bool(ne[top, p]), z3.Not(as_z3bool(trig[p]))))
        if unannounced and E.query(OR(unannounced)):
            m_ = E.model()
            v_ = dict(prop="C08", kind="moved-bound-not-announced-to-a-watcher", site=f"bc-step/{model}", cls=None, harness="lemma", lemma="bcstep", top=top, ran=just, model=model)
            v_.update(ctx.witness(m_))
            v_["queue"] = [bool(E.ev(m_, b_)) for b_ in q]
            v_["enabled"] = [bool(E.ev(m_, b_)) for b_ in en]
            v_["after"] = [[E.ev(m_, a_), E.ev(m_, b_)] for a_, b_ in cur]
            E.acc.violation(v_)
        # Inv after the step: enabled, not queued, not the one that just ran  ==>  stable
        for p in range(NP):
            if p == just:
                continue
            enp, qp = ne[top, p], trig[p]
            c = z3.And(as_z3bool(enp), z3.Not(as_z3bool(qp)))
            if not E.branch(c):
                continue
            s_, same = run_prop(p, stack[top].copy())
            if s_ == 0:
                rec("invariant-broken:unqueued-propagator-fails", prop_index=p, ran=just)
            elif int(pb.algorithms[p]) != P.ALG_NO_SUB_CYCLE and E.query(z3.Not(same)):
                rec("invariant-broken:unqueued-propagator-not-stable", prop_index=p, ran=just)
        # queued ==> enabled
        if E.query(OR([z3.And(as_z3bool(trig[p]), z3.Not(as_z3bool(ne[top, p]))) for p in range(NP)])):
            rec("disabled-propagator-queued")

    return body
