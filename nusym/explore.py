"""parallel path exploration: a work-list of decision prefixes distributed over a fork()ed process pool.

A task explores the subtrees below some prefixes depth-first for a bounded number of paths and hands the unexplored
prefixes back; the parent re-queues them.  The search is exhaustive iff the work-list drains before the deadline."""
import multiprocessing as mp
import os
import time
import traceback

from . import core
from .core import Acc, new_stats

REGISTRY = {}


def register(key):
    def deco(factory):
        REGISTRY[key] = factory
        return factory

    return deco


_POOL = None
JOBS = int(os.environ.get("NUSYM_JOBS", "16"))


def get_pool():
    global _POOL
    if _POOL is None:
        # the workers are forked copies of this process: every harness module has to be registered before the fork
        from . import h_build, h_golomb, h_heur, h_lemma, h_models, h_mp, h_prop, h_shave, h_solve, h_split, h_stack  # noqa: F401

        _POOL = mp.get_context("fork").Pool(JOBS)
    return _POOL


def close_pool():
    global _POOL
    if _POOL is not None:
        _POOL.terminate()
        _POOL.join()
        _POOL = None


class Result:
    def __init__(self):
        self.acc = Acc()
        self.stats = new_stats()
        self.obligations = dict(index_checks=0, sym_index_checks=0, negative_index_uses=0, dtype_checks=0)
        self.exhaustive = True
        self.errors = []
        self.wall = 0.0

    def merge_task(self, acc, stats, obl):
        self.acc.merge(acc)
        for k, v in stats.items():
            self.stats[k] = self.stats.get(k, 0) + v
        for k, v in obl.items():
            self.obligations[k] = self.obligations.get(k, 0) + v

    def merge(self, other):
        self.merge_task(other.acc, other.stats, other.obligations)
        self.exhaustive = self.exhaustive and other.exhaustive
        self.errors.extend(other.errors)
        self.wall += other.wall


def _task(args):
    key, params, prefixes, max_paths, tlimit, flags = args
    E = core.ENGINE
    E.stats = new_stats()
    E.acc = Acc()
    for k in core.FLAGS.obligations:
        core.FLAGS.obligations[k] = 0
    core.FLAGS.check_dtype = flags.get("check_dtype", False)
    core.FLAGS.wrap_narrow = flags.get("wrap_narrow", False)
    core.FLAGS.argsort_all_ties = flags.get("argsort_all_ties", True)
    core.FLAGS.track_dtypes = flags.get("track_dtypes", False)
    E.loop_budget = flags.get("loop_budget", 2000)
    try:
        body = REGISTRY[key](**params)
        on_abort = getattr(body, "on_abort", None)
        left = E.run_paths(body, prefixes, max_paths, deadline=time.time() + tlimit, on_abort=on_abort)
        return ("ok", E.acc, E.stats, dict(core.FLAGS.obligations), left)
    except BaseException as e:  # noqa: harness error: report, do not hide
        return ("error", f"{type(e).__name__}: {e}\n{traceback.format_exc()}", E.stats, dict(core.FLAGS.obligations), [])


def run(key, params, time_limit=600.0, flags=None, serial=False, task_paths=120, in_pool=False):
    """explore harness `key` exhaustively (within time_limit). returns Result."""
    flags = flags or {}
    res = Result()
    t0 = time.time()
    deadline = t0 + time_limit
    if serial or JOBS <= 1:
        if in_pool and JOBS > 1:
            # one task holding the whole exploration, executed by a pool worker (so that several explorations can overlap)
            out = get_pool().apply_async(_task, ((key, params, [[]], 10**9, time_limit, flags),)).get()
        else:
            out = _task((key, params, [[]], 10**9, time_limit, flags))
        if out[0] == "error":
            res.errors.append(out[1])
            res.exhaustive = False
        else:
            res.merge_task(out[1], out[2], out[3])
            if out[4]:
                res.exhaustive = False
        res.wall = time.time() - t0
        return res
    pool = get_pool()
    queue = [[[]]]  # list of prefix-chunks
    outstanding = []
    while queue or outstanding:
        now = time.time()
        if now > deadline:
            res.exhaustive = False
            queue = []
            # wait for running tasks (they have their own tlimit)
        while queue and len(outstanding) < 3 * JOBS:
            chunk = queue.pop()
            busy = len(outstanding) + len(queue)
            mpaths = 6 if busy < JOBS else (30 if busy < 3 * JOBS else task_paths)
            tl = max(1.0, min(60.0, deadline - time.time()))
            outstanding.append(pool.apply_async(_task, ((key, params, chunk, mpaths, tl, flags),)))
        if not outstanding:
            break
        # poll
        still = []
        progressed = False
        for a in outstanding:
            if a.ready():
                progressed = True
                out = a.get()
                if out[0] == "error":
                    res.errors.append(out[1])
                    res.exhaustive = False
                    queue = []
                    deadline = 0
                else:
                    res.merge_task(out[1], out[2], out[3])
                    left = out[4]
                    if left:
                        if time.time() > deadline:
                            res.exhaustive = False
                        else:
                            # shallow prefixes (big subtrees) one per task, small ones grouped
                            if len(queue) + len(still) < 4 * JOBS:
                                queue.extend([[p] for p in left])
                            else:
                                for i in range(0, len(left), 8):
                                    queue.append(left[i : i + 8])
            else:
                still.append(a)
        outstanding = still
        if not progressed:
            time.sleep(0.005)
    res.wall = time.time() - t0
    return res
