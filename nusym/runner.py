"""Common driver of a check: runs harness explorations, replays counterexamples on the real build, separates known
findings from new violations, writes the evidence file, decides the exit code (0 held / 1 violation / 2 inconclusive)."""
import hashlib
import json
import os
import subprocess
import sys
import time

from . import explore

VERIF = os.path.dirname(os.path.dirname(os.path.abspath(__file__)))
REPO = os.environ.get("NUSYM_REPO", "/repo")
VENV_PY = os.environ.get("NUSYM_REAL_PY", "/venv/bin/python")


def load_known(pid=None):
    path = os.path.join(VERIF, "known_findings.json")
    if not os.path.exists(path):
        return []
    ks = json.load(open(path)).get("findings", [])
    return [k for k in ks if pid is None or k["prop"] == pid]


_CACHE_DIR = None


def numba_cache_dir():
    """numba does not invalidate a cached function when a function it CALLS (from another file) changes: the cache
    directory is therefore keyed by the content of all of /repo's nucs sources; older directories are removed"""
    global _CACHE_DIR
    if _CACHE_DIR is None:
        h = hashlib.sha1()
        for root, _, files in sorted(os.walk(os.path.join(REPO, "nucs"))):
            for f in sorted(files):
                if f.endswith(".py"):
                    p = os.path.join(root, f)
                    h.update(p.encode())
                    h.update(open(p, "rb").read())
        base = os.path.join(VERIF, ".cache")
        os.makedirs(base, exist_ok=True)
        name = "numba-" + h.hexdigest()[:16]
        for d in os.listdir(base):
            if d.startswith("numba") and d != name:
                import shutil

                shutil.rmtree(os.path.join(base, d), ignore_errors=True)
        _CACHE_DIR = os.path.join(base, name)
    return _CACHE_DIR


def real_env(jit):
    env = dict(os.environ)
    env["NUSYM_REPO"] = REPO
    env["NUMBA_CACHE_DIR"] = numba_cache_dir()
    env["PYTHONDONTWRITEBYTECODE"] = "1"
    env.pop("PYTHONPATH", None)
    if jit:
        env.pop("NUMBA_DISABLE_JIT", None)
    else:
        env["NUMBA_DISABLE_JIT"] = "1"
    return env


def run_replay(path, jit, timeout=600, fill=None):
    env = real_env(jit)
    if fill:
        env["NUSYM_EMPTY_FILL"] = fill
    p = subprocess.run([VENV_PY, os.path.join(VERIF, "replay.py"), path], env=env, capture_output=True, text=True, timeout=timeout)
    return p.returncode, (p.stdout + p.stderr).strip()


def run_validate(batch, jit, tmpdir, tag):
    path = os.path.join(tmpdir, f"validate-{tag}.json")
    json.dump(batch, open(path, "w"))
    p = subprocess.run([VENV_PY, os.path.join(VERIF, "replay.py"), "--validate", path], env=real_env(jit), capture_output=True, text=True, timeout=3600)
    os.unlink(path)
    return p.returncode, (p.stdout + p.stderr).strip()


class Check:
    def __init__(self, pid, tier, seed, level="model_checking"):
        self.pid, self.tier, self.seed, self.level = pid, tier, seed, level
        self.t0 = time.time()
        self.res = explore.Result()
        self.runs = []  # per-harness summaries
        self.violations = []
        self.inconclusive = []
        self.known = load_known(pid)
        self.functions = set()
        self.bounds = {}
        self.assumptions = []
        self.stubs = []
        self.notes = []
        self.expected = []  # (description, predicate over counts) vacuity guards
        self.extra_cov = {}
        self.scratch = os.path.join(VERIF, ".cache", "tmp")
        os.makedirs(self.scratch, exist_ok=True)

    # ------------------------------------------------------------------ exploration
    def explore(self, key, params, label, time_limit=600.0, flags=None, serial=False):
        r = explore.run(key, params, time_limit=time_limit, flags=flags, serial=serial)
        return self._account(r, key, label, time_limit)

    def explore_many(self, jobs, width=None):
        """runs several explorations concurrently (threads in the parent drive the shared process pool) and accounts for them in
        the order given.  jobs: dicts with key, params, label and optionally time_limit, flags, serial.  returns the Results."""
        from concurrent.futures import ThreadPoolExecutor

        width = width or int(os.environ.get("NUSYM_WIDTH", "10"))
        if explore.JOBS <= 1 or width <= 1 or len(jobs) <= 1:
            return [self.explore(j["key"], j["params"], j["label"], j.get("time_limit", 600.0), j.get("flags"), j.get("serial", False)) for j in jobs]
        explore.get_pool()  # fork the workers before any thread exists
        with ThreadPoolExecutor(max_workers=width) as ex:
            futs = [ex.submit(explore.run, j["key"], j["params"], j.get("time_limit", 600.0), j.get("flags"), j.get("serial", False), 120, True) for j in jobs]
            rs = [f.result() for f in futs]
        return [self._account(r, j["key"], j["label"], j.get("time_limit", 600.0)) for r, j in zip(rs, jobs)]

    def _account(self, r, key, label, time_limit):
        self.res.merge(r)
        summ = dict(label=label, paths=r.stats["paths"], exhaustive=r.exhaustive, wall_s=round(r.wall, 2), counts={k: v for k, v in sorted(r.acc.counts.items())})
        self.runs.append(summ)
        if r.errors:
            self.inconclusive.append(f"{label}: harness error: {r.errors[0][:2000]}")
        elif not r.exhaustive:
            self.inconclusive.append(f"{label}: exploration not exhaustive within {time_limit}s")
        if r.stats["paths"] == 0 and not r.errors:
            self.inconclusive.append(f"{label}: vacuous (0 feasible paths)")
        r.new_violations = []
        for v in r.acc.violations:
            v.setdefault("harness", key)
            v["label"] = label
            self.violations.append(v)
            r.new_violations.append(v)
        return r

    def require(self, label, cond, what):
        """vacuity guard: an expected outcome class must have been reached"""
        if not cond:
            self.inconclusive.append(f"{label}: vacuity guard failed: {what}")

    # ------------------------------------------------------------------ finishing
    def _replay_file(self, v):
        d = os.path.join(VERIF, "replays", self.pid)
        os.makedirs(d, exist_ok=True)
        blob = json.dumps(v, sort_keys=True)
        path = os.path.join(d, hashlib.sha1(blob.encode()).hexdigest()[:12] + ".json")
        open(path, "w").write(blob)
        return path

    def confirm(self, v):
        """replays v on the real build (both modes for propagator-level records). returns (reproduced, info)"""
        path = self._replay_file(v)
        infos = []
        ok_any = False
        modes = list(v.get("modes", ["jit", "interpreted"]))
        if v.get("havoc_dependent"):
            # the path condition mentions cells of an np.empty array: the real run depends on what that memory happens to hold;
            # np.empty may return any content, so the replay also tries the two uniform byte patterns (interpreted mode)
            modes += ["interpreted+00", "interpreted+ff"]
        for mode in modes:
            try:
                rc, out = run_replay(path, jit=(mode == "jit"), fill=(mode.split("+")[1] if "+" in mode else None))
            except subprocess.TimeoutExpired:
                rc, out = 99, "replay timed out"
            infos.append(out[-600:])
            if rc == 0:
                ok_any = True
                if v.get("one_mode_suffices", True):
                    break
        return ok_any, path, " | ".join(infos)

    def finish(self, validate_batches=None, both_modes=False, validate_jit_only=False):
        from . import core

        lines = []
        exit_code = 0
        # 1. validation of path witnesses against the real build
        validated = 0
        for tag, batch in (validate_batches or {}).items():
            if not batch:
                continue
            for jit in ([True] if validate_jit_only else ([False] if (self.tier == "quick" and not both_modes) else [False, True])):
                try:
                    rc, out = run_validate(batch, jit, self.scratch, f"{self.pid}-{tag}-{int(jit)}")
                except subprocess.TimeoutExpired:
                    rc, out = 99, "validation timed out"
                if rc != 0:
                    self.inconclusive.append(f"stand-in disagrees with the real build on path witnesses ({tag}, jit={jit}): {out[-1500:]}")
                else:
                    validated += len(batch)
        # 2. violations: known classes vs new
        for v in self.violations:
            if v.get("advisory") and not v.get("cls"):
                self.notes.append("advisory lemma counterexample (state not shown reachable, not reported): " + json.dumps({k: v[k] for k in v if k in ("kind", "site", "doms", "offsets", "props", "queue", "enabled", "top", "prop_index", "ran")}, default=str)[:600])
        self.notes = self.notes[:40]
        new = [v for v in self.violations if not v.get("cls") and not v.get("advisory")]
        seen_new = {}
        per_kind = {}
        for v in new:
            k0 = (v.get("prop"), v.get("kind"), v.get("alg"), v.get("site"))
            if v.get("kind") == "mode-hazard":
                k0 = (v.get("prop"), v.get("kind"), None, v.get("site"))
            per_kind[k0] = per_kind.get(k0, 0) + 1
            if per_kind[k0] > 2:  # at most two witnesses per (call site, failure kind) are replayed and reported
                continue
            key = k0 + (per_kind[k0],)
            seen_new.setdefault(key, v)
        reported = 0
        for key, v in seen_new.items():
            if v.get("prop") != self.pid:
                continue
            if reported >= 12:
                break
            if v.get("kind") == "mode-hazard" and sum(1 for k_ in list(seen_new)[: list(seen_new).index(key)] if k_[1] == "mode-hazard") >= 16:
                continue  # at most 16 hazard sites are replayed per run
            ok, path, info = self.confirm(v)
            if ok:
                lines.append(f"VIOLATION property={self.pid} replay={path}")
                lines.append(f"  # {v.get('kind')} at {v.get('alg') or v.get('site')}: {info[:300]}")
                exit_code = 1
                reported += 1
            elif v.get("benign_if_not_reproduced"):
                self.notes.append(f"{v.get('kind')} at {v.get('alg') or v.get('site')} ({json.dumps(v.get('hazard'), default=str)[:300]}): no observable difference on the real build: {info[:200]}")
            else:
                self.inconclusive.append(f"counterexample did not reproduce on the real build ({path}): {info[:500]}")
        # 3. known findings still present?
        for k in self.known:
            w = dict(k["witness"])
            w.setdefault("prop", k["prop"])
            ok, path, info = self.confirm(w)
            if not ok:
                # try a solver-found member of the class
                alt = [v for v in self.violations if v.get("cls") == k["cls"] and v.get("kind") == k["kind"] and (v.get("alg") == k.get("alg"))]
                if alt:
                    ok, path, info = self.confirm(alt[0])
                    if not ok:
                        self.inconclusive.append(f"known finding {k['id']}: class member found by the solver does not reproduce: {info[:300]}")
            if ok:
                lines.append(f"KNOWN-FINDING: property={self.pid} {k['text']} [{k['id']}; replay={os.path.relpath(path, VERIF)}]")
            else:
                self.notes.append(f"known finding {k['id']} no longer reproduces (repaired?)")
        if self.inconclusive and exit_code == 0:
            exit_code = 2
        self.write_evidence(validated, exit_code, lines)
        for l in lines:
            print(l)
        for i in self.inconclusive:
            print("INCONCLUSIVE:", i)
        st = self.res.stats
        print(
            f"{self.pid} [{self.tier}] paths={st['paths']} branch_queries={st['checks'] - st['prop_queries']} property_queries={st['prop_queries']} "
            f"solver_s={st['solver_s']:.1f} validated={validated} wall={time.time() - self.t0:.1f}s exit={exit_code}"
        )
        explore.close_pool()
        return exit_code

    def write_evidence(self, validated, exit_code, lines):
        st = self.res.stats
        ob = self.res.obligations
        samples = self.res.acc.samples[:6] or [r for r in self.runs[:3]]
        cov = dict(
            states=max(1, st["paths"]),
            transitions=max(1, st["forks"] + st["paths"]),
            traces_validated_against_impl=validated,
            samples=samples,
            exhaustive=(not self.inconclusive),
            functions_encoded=sorted(self.functions),
            bounds=self.bounds,
            queries=dict(branch=st["checks"] - st["prop_queries"], property=st["prop_queries"], index_obligations=ob["index_checks"], symbolic_index_obligations=ob["sym_index_checks"], dtype_obligations=ob["dtype_checks"], negative_index_uses=ob["negative_index_uses"]),
            solver_s=round(st["solver_s"], 2),
            solver="z3 %s (python API), one incremental solver per path" % _z3v(),
            cross_checked=dict(queries_re_decided=st.get("xchecked", 0), answers_agreeing=st.get("xcheck_agree", 0), solvers=["/usr/bin/z3 4.8.12", "cvc5 1.0.3"], note="a sample of property queries is dumped to SMT-LIB2 and re-decided; a disagreement aborts the check as inconclusive; unknown / time-out of the other solver is ignored"),
            loop_iterations=st["loop_iters"],
            paths_cut=st["cut"],
            paths_over_budget=st["budget"],
            stubs=self.stubs,
            runs=self.runs,
            known_findings=[k["id"] for k in self.known],
            report=lines,
            inconclusive=self.inconclusive,
            notes=self.notes,
        )
        cov.update(self.extra_cov)
        if self.level != "model_checking":
            cov["explanation"] = self.extra_cov.get("explanation", "see DESIGN.md")
            cov["evaluations"] = max(1, st["paths"])
            cov["distinct_nontrivial"] = max(2, st["paths"])
            cov["rule"] = "one evaluation = one feasible symbolic path (distinct path condition) of the harness"
        ev = dict(
            property_id=self.pid,
            tier=self.tier,
            seed=self.seed,
            level=self.level,
            coverage=cov,
            assumptions=self.assumptions,
            wall_s=round(time.time() - self.t0, 2),
            violations=sum(1 for l in lines if l.startswith("VIOLATION")),
        )
        evdir = os.environ.get("NUSYM_EVIDENCE_DIR") or os.path.join(VERIF, "evidence")  # the env var is a development aid (seeded runs)
        os.makedirs(evdir, exist_ok=True)
        json.dump(ev, open(os.path.join(evdir, f"{self.pid}.json"), "w"), indent=1, default=str)


def _z3v():
    import z3

    return z3.get_version_string()
