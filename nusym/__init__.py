"""nusym: symbolic execution of the real nucs sources (see /verif/DESIGN.md)"""
import os
import sys

REPO = os.environ.get("NUSYM_REPO", "/repo")
_installed = False


def install():
    global _installed
    if _installed:
        return
    from . import core

    core.install(REPO)
    import logging

    logging.disable(logging.CRITICAL)
    _installed = True
