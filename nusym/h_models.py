"""C20: shipped models.  The real model constructors are executed (under the stand-in numpy), the constraint network
Phi_model is extracted from the Problem object (shared domains, indices, offsets, propagators) and encoded with the
relation encoders; z3 then decides, per instance size:
  validity      Phi_model(x)  =>  Valid_def(x)          (Valid_def: independent definition-level formula)
  completeness  Valid_def(x)  =>  exists aux. Phi_model  (models without symmetry breaking)
  symmetry      Phi_sb => Phi,  Phi_sb sat <=> Phi sat,  optimum(Phi_sb) = optimum(Phi)
  counts/optima all-SAT / Optimize on Valid_def, compared with the literature values and (replay) with the real solver
"""
import itertools
import time

import z3

from .relations import ZREL, AND, OR, zsum


def alg_name(P, alg):
    for n in dir(P):
        if n.startswith("ALG_") and getattr(P, n) == alg and n[4:].lower() in ZREL:
            return n[4:].lower()
    raise KeyError(alg)


def _int(v):
    if isinstance(v, float):
        assert v == int(v)
        return int(v)
    return int(v)


class Net:
    def __init__(self, pb, tag="d"):
        import nucs.propagators.propagators as P

        self.pb = pb
        nd = len(pb.shr_domains_lst)
        self.x = [z3.Int(f"{tag}{i}") for i in range(nd)]
        self.bounds = AND([z3.And(_int(lo) <= self.x[i], self.x[i] <= _int(hi)) for i, (lo, hi) in enumerate(pb.shr_domains_lst)])
        self.v = [self.x[int(d)] + _int(o) for d, o in zip(pb.dom_indices_lst, pb.dom_offsets_lst)]
        cs = []
        self.algs = {}
        for pv, alg, params in pb.propagators:
            name = alg_name(P, alg)
            self.algs[name] = self.algs.get(name, 0) + 1
            cs.append(ZREL[name]([self.v[int(i)] for i in pv], [_int(p) for p in params]))
        self.cons = AND(cs)
        self.parts = [self.bounds] + cs
        self.phi = z3.And(self.bounds, self.cons)


def _consts(e):
    """the uninterpreted constants of a z3 term"""
    out, todo, seen = set(), [e], set()
    while todo:
        t = todo.pop()
        if t.get_id() in seen:
            continue
        seen.add(t.get_id())
        if z3.is_const(t) and t.decl().kind() == z3.Z3_OP_UNINTERPRETED:
            out.add(t)
        todo.extend(t.children())
    return out


def solve(*fs, timeout_s=120):
    s = z3.Solver()
    s.set("timeout", int(timeout_s * 1000))
    s.add(*fs)
    return s, s.check()


def count_models(f, vars_, limit=5000, timeout_s=300):
    s = z3.Solver()
    s.set("timeout", int(timeout_s * 1000))
    s.add(f)
    n = 0
    t0 = time.time()
    while True:
        r = s.check()
        if r == z3.unknown:
            return None
        if r == z3.unsat:
            return n
        m = s.model()
        n += 1
        if n > limit or time.time() - t0 > timeout_s:
            return None
        s.add(OR([v != m.eval(v, model_completion=True) for v in vars_]))


def optimum(f, obj, minimize=True, timeout_s=120):
    o = z3.Optimize()
    o.set("timeout", int(timeout_s * 1000))
    o.add(f)
    h = o.minimize(obj) if minimize else o.maximize(obj)
    r = o.check()
    if r != z3.sat:
        return None if r == z3.unsat else "unknown"
    return o.model().eval(obj, model_completion=True).as_long()


# ------------------------------------------------------------------------------------------ definitions (independent)
def distinct(xs):
    xs = list(xs)
    return z3.Distinct(*xs) if len(xs) > 1 else z3.BoolVal(True)


def zabs(a):
    return z3.If(a >= 0, a, -a)


def valid_queens(q):
    n = len(q)
    return AND([z3.And(0 <= q[i], q[i] < n) for i in range(n)] + [z3.And(q[i] != q[j], zabs(q[i] - q[j]) != j - i) for i in range(n) for j in range(i + 1, n)])


def valid_latin(cells, n, colors):
    cs = [OR([c == k for k in colors]) for c in cells]
    for i in range(n):
        cs.append(distinct(cells[i * n : (i + 1) * n]))
        cs.append(distinct(cells[i::n]))
    return AND(cs)


def sel(arr, idx):
    """arr[idx] for a term idx"""
    r = arr[-1]
    for k in range(len(arr) - 2, -1, -1):
        r = z3.If(idx == k, arr[k], r)
    return r


def valid_idempotent_latin(cells, n):
    """idempotent quasigroup: a latin square on 0..n-1 with m[i][i] = i"""
    return AND([valid_latin(cells, n, range(n))] + [cells[i * n + i] == i for i in range(n)])


def valid_quasigroup5(cells, n):
    op = lambda a, b: sel([sel(cells[i * n : (i + 1) * n], b) for i in range(n)], a)  # noqa: E731  a*b = cells[a][b]
    cs = [valid_latin(cells, n, range(n))]
    cs += [cells[i * n + i] == i for i in range(n)]
    for a in range(n):
        for b in range(n):
            ba = cells[b * n + a]
            cs.append(op(op(ba, z3.IntVal(b)), z3.IntVal(b)) == a)
    return AND(cs)


def valid_magic_square(c, n):
    m = (n * n - 1) * n // 2
    cs = [z3.And(0 <= x, x < n * n) for x in c] + [distinct(c)]
    for i in range(n):
        cs.append(zsum(c[i * n : (i + 1) * n]) == m)
        cs.append(zsum(c[i::n]) == m)
    cs.append(zsum([c[i * n + i] for i in range(n)]) == m)
    cs.append(zsum([c[i * n + (n - 1 - i)] for i in range(n)]) == m)
    return AND(cs)


def valid_magic_sequence(x):
    n = len(x)
    return AND([x[i] == zsum([z3.If(x[j] == i, 1, 0) for j in range(n)]) for i in range(n)] + [x[i] >= 0 for i in range(n)])


def golomb_index(n, i, j):
    return i * n - (i * (i + 1)) // 2 + j - i - 1


def valid_golomb(d, n):
    """d: distance variables indexed by golomb_index; exists marks 0 = m0 < m1 < ... with d_ij = m_j - m_i, all different"""
    marks = [z3.IntVal(0)] + [d[golomb_index(n, 0, j)] for j in range(1, n)]
    cs = [marks[j] > marks[j - 1] for j in range(1, n)]
    for i in range(n - 1):
        for j in range(i + 1, n):
            cs.append(d[golomb_index(n, i, j)] == marks[j] - marks[i])
    cs.append(distinct(d))
    return AND(cs)


def valid_bibd(mx, v, b, r, k, l):
    cs = [z3.And(0 <= x, x <= 1) for x in mx]
    ones = lambda xs: zsum([z3.If(x == 1, 1, 0) for x in xs])  # noqa: E731
    for i in range(v):
        cs.append(ones(mx[i * b : (i + 1) * b]) == r)
    for j in range(b):
        cs.append(ones(mx[j::b]) == k)
    for i1 in range(v - 1):
        for i2 in range(i1 + 1, v):
            cs.append(zsum([z3.If(z3.And(mx[i1 * b + j] == 1, mx[i2 * b + j] == 1), 1, 0) for j in range(b)]) == l)
    return AND(cs)


def valid_schur(x, n):
    """x[3*i+k] = 1 iff number i+1 is in box k"""
    cs = [z3.And(0 <= t, t <= 1) for t in x]
    for i in range(n):
        cs.append(zsum(x[3 * i : 3 * i + 3]) == 1)
    for a in range(1, n + 1):
        for b_ in range(1, n + 1):
            c = a + b_
            if c <= n:
                for k in range(3):
                    cs.append(z3.Not(z3.And(x[3 * (a - 1) + k] == 1, x[3 * (b_ - 1) + k] == 1, x[3 * (c - 1) + k] == 1)))
    return AND(cs)


def valid_sports(pb, v, parts=False):
    n, P_, W = pb.team_nb, pb.period_nb, pb.week_nb
    team = lambda p, w, s: v[pb.team_var_index(p, w, s)]  # noqa: E731
    cs = [z3.And(0 <= team(p, w, s), team(p, w, s) < n) for p in range(P_) for w in range(W) for s in range(2)]
    for w in range(W):  # every team plays once a week
        cs.append(distinct([team(p, w, s) for p in range(P_) for s in range(2)]))
    for p in range(P_):  # at most twice in the same period
        for t in range(n):
            cs.append(zsum([z3.If(team(p, w, s) == t, 1, 0) for w in range(W) for s in range(2)]) <= 2)
    for a in range(n):  # every team plays every other team (exactly once: n(n-1)/2 slots)
        for b_ in range(a + 1, n):
            cs.append(zsum([z3.If(z3.Or(z3.And(team(p, w, 0) == a, team(p, w, 1) == b_), z3.And(team(p, w, 0) == b_, team(p, w, 1) == a)), 1, 0) for p in range(P_) for w in range(W)]) == 1)
    return cs if parts else AND(cs)


def valid_circuit(s):
    n = len(s)
    cs = [z3.And(0 <= t, t < n) for t in s] + [distinct(s)]
    cur = z3.IntVal(0)
    for k in range(1, n):
        cur = sel(s, cur)
        cs.append(cur != 0)
    return AND(cs)


def valid_sudoku(c):
    cs = [z3.And(1 <= x, x <= 9) for x in c]
    for i in range(9):
        cs.append(distinct(c[i * 9 : (i + 1) * 9]))
        cs.append(distinct(c[i::9]))
    for bi in range(3):
        for bj in range(3):
            cs.append(distinct([c[(bi * 3 + i) * 9 + bj * 3 + j] for i in range(3) for j in range(3)]))
    return AND(cs)


ALPHA_WORDS = {"BALLET": 45, "CELLO": 43, "CONCERT": 74, "FLUTE": 30, "FUGUE": 50, "GLEE": 66, "JAZZ": 58, "LYRE": 47, "OBOE": 53, "OPERA": 65, "POLKA": 59, "QUARTET": 50, "SAXOPHONE": 134, "SCALE": 51, "SOLO": 37, "SONG": 61, "SOPRANO": 82, "THEME": 72, "VIOLIN": 100, "WALTZ": 34}


def valid_alpha(x):
    cs = [z3.And(1 <= t, t <= 26) for t in x] + [distinct(x)]
    for w, tot in ALPHA_WORDS.items():
        cs.append(zsum([x[ord(ch) - 65] for ch in w]) == tot)
    return AND(cs)


def valid_donald(x):
    L = dict(zip("ABDEGLNORT", x))

    def num(w):
        r = 0
        for ch in w:
            r = r * 10 + L[ch]
        return r

    return AND([z3.And(0 <= t, t <= 9) for t in x] + [distinct(x), num("DONALD") + num("GERALD") == num("ROBERT")])


def count_donald_bv():
    """the same definition over 24-bit vectors (digits <= 9, all sums < 2^21: no wrap-around): bit-blasting decides the
    uniqueness in a second where linear integer arithmetic needs minutes"""
    x = [z3.BitVec(f"bx{i}", 24) for i in range(10)]
    L = dict(zip("ABDEGLNORT", x))

    def num(w):
        r = z3.BitVecVal(0, 24)
        for ch in w:
            r = r * 10 + L[ch]
        return r

    f = z3.And([z3.ULE(t, 9) for t in x] + [z3.Distinct(*x), num("DONALD") + num("GERALD") == num("ROBERT")])
    return count_models(f, x, limit=5, timeout_s=120)


# ------------------------------------------------------------------------------------------------ the checks
class Report:
    def __init__(self):
        self.items = []  # dict(model, size, query, result, expected, ok, seconds)
        self.violations = []
        self.inconclusive = []
        self.queries = 0
        self.solver_s = 0.0
        self.instances = []  # for the replay on the real solver

    def q(self, model, size, query, ok, result=None, expected=None, t0=None, unknown=False):
        dt = time.time() - t0 if t0 else 0.0
        self.queries += 1
        self.solver_s += dt
        self.items.append(dict(model=model, size=size, query=query, result=result, expected=expected, ok=bool(ok), seconds=round(dt, 2)))
        if unknown:
            self.inconclusive.append(f"{model}/{size}: {query}: solver did not answer")
        elif not ok:
            self.violations.append(dict(prop="C20", kind=query, site=f"{model}", cls=None, harness="models", model=model, size=size, result=result, expected=expected))


def implies(rep, model, size, name, a, b, timeout_s=180):
    """decides a => b"""
    t0 = time.time()
    s, r = solve(a, z3.Not(b), timeout_s=timeout_s)
    cex = None
    if r == z3.sat:
        m = s.model()
        cex = {str(d): str(m[d]) for d in m.decls()[:40]}
    rep.q(model, size, name, r == z3.unsat, result=str(r) if cex is None else cex, expected="unsat", t0=t0, unknown=(r == z3.unknown))
    return r == z3.unsat


def implies_each(rep, model, size, name, a, parts, timeout_s=60):
    """decides a => /\\ parts, one conjunct at a time"""
    t0 = time.time()
    bad, unk = 0, 0
    for c in parts:
        s, r = solve(a, z3.Not(c), timeout_s=timeout_s)
        bad += r == z3.sat
        unk += r == z3.unknown
    rep.q(model, size, name, bad == 0 and unk == 0, result=dict(conjuncts=len(parts), refuted=bad, unknown=unk), expected="all unsat", t0=t0, unknown=(unk > 0 and bad == 0))
    rep.queries += len(parts) - 1
    return bad == 0 and unk == 0


def check_count(rep, model, size, name, f, vars_, expected, limit=5000, timeout_s=300):
    t0 = time.time()
    n = count_models(f, vars_, limit=limit, timeout_s=timeout_s)
    rep.q(model, size, name, n == expected, result=n, expected=expected, t0=t0, unknown=(n is None))
    return n


def run_all(tier, only=None):
    from nucs.examples.alpha.alpha_problem import AlphaProblem
    from nucs.examples.bibd.bibd_problem import BIBDProblem
    from nucs.examples.donald.donald_problem import DonaldProblem
    from nucs.examples.golomb.golomb_problem import GolombProblem
    from nucs.examples.knapsack.knapsack_problem import KnapsackProblem
    from nucs.examples.magic_sequence.magic_sequence_problem import MagicSequenceProblem
    from nucs.examples.magic_square.magic_square_problem import MagicSquareProblem
    from nucs.examples.quasigroup.quasigroup_problem import Quasigroup5Problem
    from nucs.examples.queens.queens_problem import QueensProblem
    from nucs.examples.schur_lemma.schur_lemma_problem import SchurLemmaProblem
    from nucs.examples.sports_tournament_scheduling.sports_tournament_scheduling_problem import SportsTournamentSchedulingProblem
    from nucs.examples.sudoku.sudoku_problem import SudokuProblem
    from nucs.examples.tsp.tsp_problem import TSPProblem
    from nucs.problems.circuit_problem import CircuitProblem
    from nucs.problems.latin_square_problem import LatinSquareProblem, LatinSquareRCProblem

    q = tier == "quick"
    rep = Report()

    def on(name):
        return only is None or name in only

    # ---- queens: counts from the literature (OEIS A000170)
    if on("queens"):
        known = {1: 1, 2: 0, 3: 0, 4: 2, 5: 10, 6: 4, 7: 40, 8: 92}
        for n in range(1, 7 if q else 9):
            net = Net(QueensProblem(n))
            main = net.v[:n]
            valid = valid_queens(main)
            implies(rep, "queens", n, "model=>valid", net.phi, valid)
            implies(rep, "queens", n, "valid=>model", z3.And(valid, net.bounds), net.cons)
            check_count(rep, "queens", n, "count(valid)=literature", valid, main, known[n])
            rep.instances.append(dict(model="queens", args=[n], count=known[n]))
    # ---- latin squares (numbers of latin squares: 1, 2, 12, 576)
    if on("latin"):
        known = {1: 1, 2: 2, 3: 12, 4: 576}
        for n in range(1, 4 if q else 5):
            net = Net(LatinSquareProblem(list(range(n))))
            valid = valid_latin(net.v[: n * n], n, range(n))
            implies(rep, "latin_square", n, "model=>valid", net.phi, valid)
            implies(rep, "latin_square", n, "valid=>model", valid, net.phi)
            check_count(rep, "latin_square", n, "count(valid)=literature", valid, net.v[: n * n], known[n])
            rep.instances.append(dict(model="latin_square", args=[n], count=known[n]))
            # the redundant row/column model: duals are functionally determined, same squares
            rc = Net(LatinSquareRCProblem(n), tag="r")
            cells = rc.v[: n * n]
            implies(rep, "latin_square_rc", n, "model=>valid", rc.phi, valid_latin(cells, n, range(n)))
            t0 = time.time()
            cnt = count_models(rc.phi, cells, limit=1000, timeout_s=300)
            rep.q("latin_square_rc", n, "count(model projected on the colour cells)=literature", cnt == known[n], result=cnt, expected=known[n], t0=t0, unknown=cnt is None)
            rep.instances.append(dict(model="latin_square_rc", args=[n], count=known[n]))
    # ---- idempotent quasigroups (the base model of the quasigroup examples), with and without symmetry breaking
    if on("quasigroup"):
        from nucs.examples.quasigroup.quasigroup_problem import QuasigroupProblem

        for n in (3, 4, 5):
            plain = Net(QuasigroupProblem(n, symmetry_breaking=False))
            sb = Net(QuasigroupProblem(n, symmetry_breaking=True), tag="s")
            cells = plain.v[: n * n]
            valid = valid_idempotent_latin(cells, n)
            implies(rep, "quasigroup", n, "model=>valid", plain.phi, valid, timeout_s=300)
            cnt_valid = check_count(rep, "quasigroup", n, "count(valid)=count(model)", valid, cells, count_models(plain.phi, cells, limit=500, timeout_s=300), limit=500)
            implies(rep, "quasigroup", n, "sb-model=>valid", sb.phi, valid_idempotent_latin(sb.v[: n * n], n), timeout_s=300)
            t0 = time.time()
            _, r1 = solve(plain.phi)
            _, r2 = solve(sb.phi)
            rep.q("quasigroup", n, "sb preserves satisfiability", r1 == r2 and r1 != z3.unknown, result=[str(r1), str(r2)], t0=t0, unknown=z3.unknown in (r1, r2))
            rep.instances.append(dict(model="quasigroup", args=[n, False], count=cnt_valid))
            rep.instances.append(dict(model="quasigroup", args=[n, True], all_valid="idempotent_latin"))
    # ---- quasigroup QG5
    if on("quasigroup"):
        for n in (5,) if q else (5, 6, 7):
            plain = Net(Quasigroup5Problem(n, symmetry_breaking=False))
            sb = Net(Quasigroup5Problem(n, symmetry_breaking=True), tag="s")
            cells = plain.v[: n * n]
            valid = valid_quasigroup5(cells, n)
            implies(rep, "quasigroup5", n, "model=>valid", plain.phi, valid, timeout_s=300)
            cnt_valid = check_count(rep, "quasigroup5", n, "count(valid)=count(model)", valid, cells, count_models(plain.phi, cells, limit=500, timeout_s=300), limit=500)
            implies(rep, "quasigroup5", n, "sb-model=>valid", sb.phi, valid_quasigroup5(sb.v[: n * n], n), timeout_s=300)
            t0 = time.time()
            _, r1 = solve(plain.phi)
            _, r2 = solve(sb.phi)
            rep.q("quasigroup5", n, "sb preserves satisfiability", r1 == r2 and r1 != z3.unknown, result=[str(r1), str(r2)], t0=t0, unknown=z3.unknown in (r1, r2))
            t0 = time.time()
            csb = count_models(sb.phi, sb.v[: n * n], limit=500, timeout_s=300)
            rep.q("quasigroup5", n, "count(sb-model) computed", csb is not None, result=csb, t0=t0, unknown=csb is None)
            rep.instances.append(dict(model="quasigroup5", args=[n, False], count=cnt_valid))
            rep.instances.append(dict(model="quasigroup5", args=[n, True], count=csb))
    # ---- magic squares (counts: 8 for n=3 = 1 up to the 8 symmetries of the square)
    if on("magic_square"):
        for n in (3,) if q else (3, 4):
            plain = Net(MagicSquareProblem(n, symmetry_breaking=False))
            sb = Net(MagicSquareProblem(n, symmetry_breaking=True), tag="s")
            valid = valid_magic_square(plain.v, n)
            implies(rep, "magic_square", n, "model=>valid", plain.phi, valid)
            implies(rep, "magic_square", n, "valid=>model", valid, plain.phi)
            implies(rep, "magic_square", n, "sb-model=>valid", sb.phi, valid_magic_square(sb.v, n))
            if n == 3:
                check_count(rep, "magic_square", n, "count(valid)=literature", valid, plain.v, 8)
                check_count(rep, "magic_square", n, "count(sb-model)=count(valid)/8", sb.phi, sb.v, 1)
                rep.instances.append(dict(model="magic_square", args=[3, False], count=8))
                rep.instances.append(dict(model="magic_square", args=[3, True], count=1))
            else:
                rep.instances.append(dict(model="magic_square", args=[4, True], count=880))
    # ---- magic sequences (exactly one for n >= 7; 2 for n=4; 1 for n=5; 0 for n=6 and n<=3)
    if on("magic_sequence"):
        known = {1: 0, 2: 0, 3: 0, 4: 2, 5: 1, 6: 0, 7: 1, 8: 1, 9: 1, 10: 1}
        for n in range(1, 9 if q else 11):
            net = Net(MagicSequenceProblem(n))
            valid = valid_magic_sequence(net.v)
            implies(rep, "magic_sequence", n, "model=>valid", net.phi, valid)
            implies(rep, "magic_sequence", n, "valid=>model (redundant constraints lose nothing)", valid, net.phi)
            check_count(rep, "magic_sequence", n, "count(valid)=literature", valid, net.v, known[n])
            rep.instances.append(dict(model="magic_sequence", args=[n], count=known[n]))
    # ---- Golomb rulers (optimal lengths 0 1 3 6 11 17 25)
    if on("golomb"):
        lengths = {2: 1, 3: 3, 4: 6, 5: 11, 6: 17, 7: 25}
        for n in (3, 4, 5) if q else (3, 4, 5, 6):
            plain = GolombProblem(n, symmetry_breaking=False)
            sbp = GolombProblem(n, symmetry_breaking=True)
            netp, nets = Net(plain), Net(sbp, tag="s")
            valid = valid_golomb(netp.v, n)
            implies(rep, "golomb", n, "model=>valid", netp.phi, valid)
            implies(rep, "golomb", n, "sb-model=>valid", nets.phi, valid_golomb(nets.v, n))
            for name, f, obj in (("optimum(valid)=literature", valid, netp.v[int(plain.length_idx)]), ("optimum(model)=literature (initial bounds and redundant constraints keep an optimal ruler)", netp.phi, netp.v[int(plain.length_idx)]), ("optimum(sb-model)=literature", nets.phi, nets.v[int(sbp.length_idx)])):
                t0 = time.time()
                o = optimum(f, obj, minimize=True, timeout_s=240)
                rep.q("golomb", n, name, o == lengths[n], result=o, expected=lengths[n], t0=t0, unknown=o == "unknown")
            rep.instances.append(dict(model="golomb", args=[n, True], optimum=lengths[n]))
    # ---- BIBD
    if on("bibd"):
        for args in ((6, 10, 5, 3, 2), (7, 7, 3, 3, 1)):
            v, b, r, k, l = args
            plain = Net(BIBDProblem(*args, symmetry_breaking=False))
            sb = Net(BIBDProblem(*args, symmetry_breaking=True), tag="s")
            implies(rep, "bibd", list(args), "model=>valid", plain.phi, valid_bibd(plain.v[: v * b], *args), timeout_s=300)
            # the conjunction variables are functionally determined by the matrix: substitute their definition
            subst = _bibd_aux_subst(plain.v, v, b, plain.x)
            implies_each(rep, "bibd", list(args), "valid=>model[conjunction variables := their definition] (constraint by constraint)", valid_bibd(plain.v[: v * b], *args), [z3.substitute(c, *subst) for c in plain.parts], timeout_s=60)
            implies(rep, "bibd", list(args), "sb-model=>valid", sb.phi, valid_bibd(sb.v[: v * b], *args), timeout_s=300)
            t0 = time.time()
            _, r2 = solve(sb.phi, timeout_s=300)
            rep.q("bibd", list(args), "sb-model satisfiable (a design exists)", r2 == z3.sat, result=str(r2), t0=t0, unknown=r2 == z3.unknown)
            rep.instances.append(dict(model="bibd", args=list(args) + [True], count=1))
    # ---- Schur's lemma with 3 boxes (S(3) = 13: solutions exist iff n <= 13)
    if on("schur"):
        for n in (3, 6, 9) if q else (3, 5, 8, 10, 12, 13, 14):
            plain = Net(SchurLemmaProblem(n, symmetry_breaking=False))
            sb = Net(SchurLemmaProblem(n, symmetry_breaking=True), tag="s")
            valid = valid_schur(plain.v, n)
            implies(rep, "schur_lemma", n, "model=>valid", plain.phi, valid)
            implies(rep, "schur_lemma", n, "valid=>model", valid, plain.phi)
            implies(rep, "schur_lemma", n, "sb-model=>valid", sb.phi, valid_schur(sb.v, n))
            t0 = time.time()
            _, r1 = solve(plain.phi)
            _, r2 = solve(sb.phi)
            rep.q("schur_lemma", n, "sb preserves satisfiability; satisfiable iff n <= 13", r1 == r2 == (z3.sat if n <= 13 else z3.unsat), result=[str(r1), str(r2)], t0=t0, unknown=z3.unknown in (r1, r2))
            if n <= 10:
                c = count_models(sb.phi, sb.v, limit=2000, timeout_s=300)
                rep.instances.append(dict(model="schur_lemma", args=[n, True], count=c))
    # ---- sports tournament scheduling
    if on("sports"):
        for n in (4,) if q else (4, 6):
            pp = SportsTournamentSchedulingProblem(n, symmetry_breaking=False)
            ps = SportsTournamentSchedulingProblem(n, symmetry_breaking=True)
            plain, sb = Net(pp), Net(ps, tag="s")
            implies(rep, "sports", n, "model=>valid", plain.phi, valid_sports(pp, plain.v), timeout_s=300)
            implies(rep, "sports", n, "sb-model=>valid", sb.phi, valid_sports(ps, sb.v), timeout_s=300)
            t0 = time.time()
            _, r1 = solve(plain.phi, timeout_s=300)
            _, r2 = solve(sb.phi, timeout_s=300)
            # no schedule exists for 4 teams; schedules exist for 6, 8, ...
            exp = z3.unsat if n == 4 else z3.sat
            rep.q("sports", n, "sb preserves satisfiability (4 teams: none; 6: some)", r1 == r2 == exp, result=[str(r1), str(r2)], t0=t0, unknown=z3.unknown in (r1, r2))
        # 8 teams (4 periods): the global implication is out of reach for z3 in the quick budget (measured: > 20 min), so each validity
        # conjunct is decided LOCALLY: the constraints posted on (a subset of) the variables the conjunct mentions must imply it.
        # A failing local implication is a solver counterexample of the sub-network only: it is reported if the real solver then
        # returns an invalid schedule among its first ones (validator in replay.py), otherwise it is a note
        if not only or "sports" in only:
            n = 8
            for sbk, tg in ((False, "d"), (True, "s")):
                pp = SportsTournamentSchedulingProblem(n, symmetry_breaking=sbk)
                net = Net(pp, tag=tg)
                import nucs.heuristics.heuristics as HH

                inst = dict(model="sports", args=[n, sbk], all_valid="sports", first=3 if not sbk else 6, configs=[dict(var_heuristic_idx=int(HH.VAR_HEURISTIC_SMALLEST_DOMAIN))])
                rep.instances.append(inst)
                t0 = time.time()
                names = lambda f: {str(c) for c in _consts(f)}  # noqa: E731
                refuted, unk = [], 0
                # value ranges, 'every team once a week', 'at most twice per period'; 'every pair exactly once' goes through the
                # auxiliary game variables and is decided globally at 4 (6) teams only
                conj = valid_sports(pp, net.v, parts=True)[: pp.period_nb * pp.week_nb * 2 + pp.week_nb + pp.period_nb * n]
                for ci, c in enumerate(conj):
                    S = names(c)
                    local = [net.bounds] + [r for r in net.parts[1:] if names(r) <= S]
                    _, r = solve(*local, z3.Not(c), timeout_s=20)
                    if r == z3.sat:
                        refuted.append(ci)
                    unk += r == z3.unknown
                rep.queries += len(conj) - 1
                qn = ("sb-" if sbk else "") + "model=>valid (each conjunct from the constraints posted on its own variables)"
                rep.q("sports", n, qn, not refuted and not unk, result=dict(conjuncts=len(conj), refuted=refuted[:8], unknown=unk), expected="all unsat", t0=t0, unknown=(unk > 0 and not refuted))
    # ---- knapsack (shipped instance)
    if on("knapsack"):
        inst = _knapsack_instance()
        pbk = KnapsackProblem(*inst)
        net = Net(pbk)
        n = len(inst[0])
        take = net.v[:n]
        valid = z3.And(AND([z3.And(0 <= t, t <= 1) for t in take]), zsum([inst[1][i] * take[i] for i in range(n)]) <= inst[2], net.v[n] == zsum([inst[0][i] * take[i] for i in range(n)]))
        implies(rep, "knapsack", n, "model=>valid", net.phi, valid)
        implies(rep, "knapsack", n, "valid=>model", valid, net.phi)
        t0 = time.time()
        o1 = optimum(valid, net.v[n], minimize=False)
        rep.q("knapsack", n, "optimum(valid)=known optimum of the shipped instance", o1 == 54, result=o1, expected=54, t0=t0, unknown=o1 == "unknown")
        rep.instances.append(dict(model="knapsack", args=[], optimum=54))
    # ---- circuit / TSP
    if on("tsp"):
        for n in (2, 3, 4) if q else (2, 3, 4, 5, 6):
            net = Net(CircuitProblem(n))
            # the circuit model relies on its domains ([1,n-1], [0,n-1].., [0,n-2]) + alldifferent + no_sub_cycle
            valid = valid_circuit(net.v)
            implies(rep, "circuit", n, "model=>valid", net.phi, valid)
            implies(rep, "circuit", n, "valid=>model", valid, net.phi)
            import math

            check_count(rep, "circuit", n, "count(valid)=(n-1)!", valid, net.v, math.factorial(n - 1))
            rep.instances.append(dict(model="circuit", args=[n], count=math.factorial(n - 1)))
        costs = [[0, 2, 1, 2], [2, 0, 2, 1], [1, 2, 0, 2], [2, 1, 2, 0]]
        pbt = TSPProblem(costs)
        net = Net(pbt)
        n = 4
        succ = net.v[:n]
        total = net.v[2 * n]
        valid = z3.And(valid_circuit(succ), total == zsum([sel([z3.IntVal(c) for c in costs[i]], succ[i]) for i in range(n)]))
        implies(rep, "tsp", n, "model=>valid", net.phi, valid)
        t0 = time.time()
        o1, o2 = optimum(valid, total), optimum(net.phi, total)
        rep.q("tsp", n, "optimum(model)=optimum(valid)=6 (shipped test instance)", o1 == o2 == 6, result=[o1, o2], expected=6, t0=t0, unknown="unknown" in (o1, o2))
        rep.instances.append(dict(model="tsp", args=[costs], optimum=6))
    # ---- sudoku: validity for ANY givens (givens only shrink domains of the same network), uniqueness on a shipped grid
    if on("sudoku"):
        wild = [[0] * 9 for _ in range(9)]
        net = Net(SudokuProblem(wild))
        implies(rep, "sudoku", 9, "model(no givens)=>valid  (hence for all givens: they only restrict domains)", net.phi, valid_sudoku(net.v), timeout_s=300)
        implies(rep, "sudoku", 9, "valid=>model(no givens)", valid_sudoku(net.v), net.phi, timeout_s=300)
        g = _sudoku_grid()
        netg = Net(SudokuProblem(g), tag="g")
        fixed = AND([netg.v[i * 9 + j] == g[i][j] for i in range(9) for j in range(9) if 1 <= g[i][j] <= 9])
        implies(rep, "sudoku", 9, "givens respected", netg.phi, fixed)
        check_count(rep, "sudoku", "shipped grid", "unique solution", netg.phi, netg.v, 1, limit=5)
        rep.instances.append(dict(model="sudoku", args=[g], count=1))
    # ---- alpha, donald: validity + uniqueness
    if on("alpha"):
        net = Net(AlphaProblem())
        implies(rep, "alpha", 26, "model=>valid", net.phi, valid_alpha(net.v))
        implies(rep, "alpha", 26, "valid=>model", valid_alpha(net.v), net.phi)
        check_count(rep, "alpha", 26, "unique solution", valid_alpha(net.v), net.v, 1, limit=5)
        rep.instances.append(dict(model="alpha", args=[], count=1))
    if on("donald"):
        net = Net(DonaldProblem())
        implies(rep, "donald", 10, "model=>valid", net.phi, valid_donald(net.v))
        implies(rep, "donald", 10, "valid=>model", valid_donald(net.v), net.phi)
        t0 = time.time()
        c = count_donald_bv()
        rep.q("donald", 10, "unique solution (definition over 24-bit vectors)", c == 1, result=c, expected=1, t0=t0, unknown=c is None)
        rep.instances.append(dict(model="donald", args=[], count=1))
    return rep


def _bibd_aux_subst(v_, v, b, xs):
    out = []
    idx = v * b
    for i1 in range(v - 1):
        for i2 in range(i1 + 1, v):
            for j in range(b):
                out.append((xs[idx], z3.If(z3.And(v_[i1 * b + j] == 1, v_[i2 * b + j] == 1), z3.IntVal(1), z3.IntVal(0))))
                idx += 1
    return out


def _knapsack_instance():
    # the instance of tests/examples/test_knapsack.py (maximum weight 54)
    w = [40, 40, 38, 38, 36, 36, 34, 34, 32, 32, 30, 30, 28, 28, 26, 26, 24, 24, 22, 22]
    return list(w), list(w), 55


def _sudoku_grid():
    # tests/examples/test_sudokus.py, first grid
    return [
        [0, 0, 0, 0, 3, 0, 0, 0, 0],
        [2, 8, 9, 0, 0, 0, 0, 0, 0],
        [0, 0, 5, 7, 0, 0, 0, 9, 0],
        [0, 0, 0, 0, 0, 0, 8, 0, 6],
        [0, 0, 0, 3, 0, 0, 1, 0, 0],
        [7, 1, 0, 0, 0, 6, 0, 0, 2],
        [0, 6, 3, 0, 0, 0, 0, 0, 0],
        [0, 0, 0, 0, 4, 0, 2, 0, 0],
        [0, 0, 1, 0, 5, 0, 6, 0, 0],
    ]


# ------------------------------------------------------------------------ knapsack with SYMBOLIC instance parameters
from .explore import register  # noqa: E402


@register("model_knapsack")
def make_knapsack(n=3):
    """the real KnapsackProblem constructor on symbolic volumes and capacity (weights concrete): every path of the
    constructor is explored; on each path z3 decides network <=> definition (so no valid packing is lost and none is
    invented, whatever the instance)"""
    from . import core
    from .core import SymInt

    weights = [6, 5, 12, 7][:n]

    def body(E):
        from nucs.examples.knapsack.knapsack_problem import KnapsackProblem

        vol = [z3.Int(f"vol{i}") for i in range(n)]
        cap = z3.Int("cap")
        for v in vol:
            E.solver.add(v >= 1, v <= 6)
        E.solver.add(cap >= 1, cap <= 8)
        pb = KnapsackProblem(list(weights), [SymInt(v) for v in vol], SymInt(cap))
        # extraction with symbolic parameters: coefficients of the posted affine constraints may be symbolic; the 0/1 item
        # variables make the products linear once written as if-then-else
        import nucs.propagators.propagators as P

        nd = len(pb.shr_domains_lst)
        x = [z3.Int(f"k{i}") for i in range(nd)]

        def zz(t):
            return t.e if isinstance(t, SymInt) else z3.IntVal(int(t))

        bounds = AND([z3.And(zz(lo) <= x[i], x[i] <= zz(hi)) for i, (lo, hi) in enumerate(pb.shr_domains_lst)])

        def times(c, xi, boolean):
            return z3.If(xi == 1, zz(c), 0) if boolean else zz(c) * xi

        cons = []
        for pv, alg, params in pb.propagators:
            name = alg_name(P, alg)
            assert name in ("affine_leq", "affine_eq"), name
            lhs = zsum([times(c, x[int(v)], int(v) < n) for c, v in zip(params[:-1], pv)])
            cons.append(lhs <= zz(params[-1]) if name == "affine_leq" else lhs == zz(params[-1]))
        phi = z3.And(bounds, AND(cons))
        take = x[:n]
        total = x[int(pb.weight)]
        valid = z3.And(AND([z3.And(0 <= t, t <= 1) for t in take]), zsum([z3.If(take[i] == 1, vol[i], 0) for i in range(n)]) <= cap, total == zsum([z3.If(take[i] == 1, weights[i], 0) for i in range(n)]))
        E.acc.count("constructor-path")

        def wit(m):
            return dict(harness="models", model="knapsack", size=n, weights=weights, volumes=[E.ev(m, v) for v in vol], capacity=E.ev(m, cap))

        if E.query(z3.And(phi, z3.Not(valid))):
            m = E.model()
            E.acc.violation(dict(prop="C20", kind="model=>valid (symbolic instance)", site="knapsack", cls=None, **wit(m)))
        if E.query(z3.And(valid, z3.Not(phi))):
            m = E.model()
            best = sum(w for w, t in zip(weights, take) if E.ev(m, t) == 1)
            E.acc.violation(dict(prop="C20", kind="valid=>model (symbolic instance): a valid packing is excluded by the model", site="knapsack", cls=None, lost_packing=[E.ev(m, t) for t in take], **wit(m)))

    return body


@register("model_latin_givens")
def make_latin_givens(n=3, base=0):
    """the real LatinSquareProblem constructor on SYMBOLIC givens (two cells symbolic, the others blank; colours base..base+n-1,
    the blank marker is whatever value is not a colour): on every path of the constructor z3 decides that the network is exactly
    'latin square that agrees with every given which is a colour'"""
    from .core import SymInt

    colors = list(range(base, base + n))
    cells = [(0, 0), (1, 2 % n)]

    def body(E):
        from nucs.problems.latin_square_problem import LatinSquareProblem

        g = {c: z3.Int(f"given{c[0]}{c[1]}") for c in cells}
        for v in g.values():
            E.solver.add(v >= base - 1, v <= base + n)
        blank = base - 1
        givens = [[SymInt(g[(i, j)]) if (i, j) in g else blank for j in range(n)] for i in range(n)]
        pb = LatinSquareProblem(list(colors), givens)
        E.acc.count("constructor-path")
        import nucs.propagators.propagators as P

        nd = len(pb.shr_domains_lst)
        x = [z3.Int(f"c{i}") for i in range(nd)]
        zz = lambda t: t.e if isinstance(t, SymInt) else z3.IntVal(int(t))  # noqa: E731
        bounds = AND([z3.And(zz(lo) <= x[i], x[i] <= zz(hi)) for i, (lo, hi) in enumerate(pb.shr_domains_lst)])
        v = [x[int(d)] + zz(o) for d, o in zip(pb.dom_indices_lst, pb.dom_offsets_lst)]
        cons = AND([ZREL[alg_name(P, alg)]([v[int(i)] for i in pv], [zz(p) for p in params]) for pv, alg, params in pb.propagators])
        phi = z3.And(bounds, cons)
        cell = lambda i, j: v[i * n + j]  # noqa: E731
        latin = AND([z3.And(base <= cell(i, j), cell(i, j) < base + n) for i in range(n) for j in range(n)] + [z3.Distinct(*[cell(i, j) for j in range(n)]) for i in range(n)] + [z3.Distinct(*[cell(i, j) for i in range(n)]) for j in range(n)])
        agrees = AND([z3.Implies(z3.And(base <= g[c], g[c] < base + n), cell(*c) == g[c]) for c in cells])
        valid = z3.And(latin, agrees)

        def wit(m):
            return dict(harness="models", model="latin_square_givens", size=n, colors=colors, givens=[[E.ev(m, g[(i, j)]) if (i, j) in g else blank for j in range(n)] for i in range(n)])

        if E.query(z3.And(phi, z3.Not(valid))):
            m = E.model()
            E.acc.violation(dict(prop="C20", kind="model=>valid (symbolic givens): the model admits a square that is not latin or contradicts a given", site="latin_square", cls=None, square=[[E.ev(m, cell(i, j)) for j in range(n)] for i in range(n)], **wit(m)))
        if E.query(z3.And(valid, z3.Not(phi))):
            m = E.model()
            E.acc.violation(dict(prop="C20", kind="valid=>model (symbolic givens): a valid completion is excluded by the model", site="latin_square", cls=None, square=[[E.ev(m, cell(i, j)) for j in range(n)] for i in range(n)], **wit(m)))

    return body
