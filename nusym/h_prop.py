"""Propagator harness: ONE call of the real compute_domains_* on a symbolic box (serves C04 C05 C06 C07 C14 C16).

cfg = dict(alg=<name>, n=<arity>, params=[spec...], D=<int>, base=<'sym'|int>, ...)
param spec: int (concrete) | ["s", lo, hi] (symbolic in [lo,hi]) | ["s"] (symbolic, |v| <= B)
"""
import itertools

import z3

from . import core
from .core import ENGINE, SArray, SymInt, Obligation, as_z3int, DType, FLAGS
from .explore import register
from .relations import ZREL, AND, OR, is_perm, zsum

VAL_B = 1 << 30
LIN_B = 1 << 26

BOOL_ALGS = {"and", "exactly_true"}
PERM_ALGS = {"no_sub_cycle", "scc"}
LINEAR = {"affine_eq", "affine_geq", "affine_leq"}
# constraints documented as bound consistent (docs/source/consistency_propagators.rst, property C14)
EXACT_ALGS = {
    "and", "affine_geq", "affine_leq", "alldifferent", "count_eq", "element_iv", "element_lic", "element_liv",
    "exactly_eq", "exactly_true", "gcc", "lexicographic_leq", "max_eq", "max_leq", "min_eq", "min_geq", "relation",
}

_P = None


def propagators_module():
    global _P
    if _P is None:
        import nucs.propagators.propagators as P

        _P = P
    return _P


def alg_index(name):
    return getattr(propagators_module(), "ALG_" + name.upper())


# ------------------------------------------------------------------------------------------------ known-finding classes
# vocabulary of input-class predicates (DESIGN 1.10): name -> f(cfg, lo, hi, pz) -> z3 Bool
def _cls_gcc_zero_upper(cfg, lo, hi, pz):
    m = (len(pz) - 1) // 2
    return OR([pz[1 + m + j] == 0 for j in range(m)])


def _cls_true(cfg, lo, hi, pz):
    return z3.BoolVal(True)


def _cls_c_outside(cfg, lo, hi, pz):
    c = pz[1] if cfg["alg"] == "exactly_eq" else pz[0]
    return z3.Or(c < 0, c > cfg["n"])


def _cls_nsc_n2_identity(cfg, lo, hi, pz):
    return z3.BoolVal(cfg["n"] == 2)


CLASSES = {
    "some_upper_capacity_is_zero": _cls_gcc_zero_upper,
    "any": _cls_true,
    "c_outside_0_n": _cls_c_outside,
    "n_eq_2": _cls_nsc_n2_identity,
}


def mk_params(E, spec, B):
    pz = []
    for k, s in enumerate(spec):
        if isinstance(s, int):
            pz.append(s)
        else:
            v = z3.Int(f"p{k}")
            if len(s) == 3:
                E.solver.add(v >= s[1], v <= s[2])
            else:
                E.solver.add(v >= -B, v <= B)
            pz.append(v)
    return pz


def zi(x):
    return z3.IntVal(x) if isinstance(x, int) else x


def contract(cfg, lo, hi, pz):
    alg, n = cfg["alg"], cfg["n"]
    cs = []
    if alg in BOOL_ALGS:
        cs += [z3.And(l >= 0, h <= 1) for l, h in zip(lo, hi)]
    if alg in PERM_ALGS:
        cs += [z3.And(l >= 0, h <= n - 1) for l, h in zip(lo, hi)]
    if alg == "gcc":
        m = (len(pz) - 1) // 2
        cs += [z3.And(l >= pz[0], h <= pz[0] + m - 1) for l, h in zip(lo, hi)]
    return AND(cs)


def affine_ref(lo, hi, pz):
    """one round of interval reasoning on the INPUT bounds (textbook rule), as z3 terms: list of (min,max)"""
    n = len(lo)
    rhs = zi(pz[-1])
    mx = []  # max of a_j x_j
    mn = []
    for j in range(n):
        a = pz[j]
        assert isinstance(a, int)
        if a > 0:
            mx.append(a * hi[j])
            mn.append(a * lo[j])
        else:
            mx.append(a * lo[j])
            mn.append(a * hi[j])
    out = []
    for i in range(n):
        a = pz[i]
        if a == 0:
            out.append((lo[i], hi[i]))
            continue
        N = rhs - zsum([mx[j] for j in range(n) if j != i])  # a x_i >= N
        M = rhs - zsum([mn[j] for j in range(n) if j != i])  # a x_i <= M
        if a > 0:
            nmin = -((-N) / a)  # ceil(N/a)
            nmax = M / a  # floor(M/a)
        else:
            b = -a  # -b x >= N  <=> x <= floor(-N/b);  -b x <= M <=> x >= ceil(-M/b)
            nmax = (-N) / b
            nmin = -(M / b)
        out.append((z3.If(nmin > lo[i], nmin, lo[i]), z3.If(nmax < hi[i], nmax, hi[i])))
    return out


@register("prop")
def make(cfg, select, known=()):
    """select: list of property ids whose queries are asked on each path. known: list of dicts(alg,kind,cls)"""
    alg, n = cfg["alg"], cfg["n"]
    select = set(select)
    R = ZREL[alg]
    B = LIN_B if alg in LINEAR else VAL_B
    D = cfg.get("D", 3)
    quant = cfg.get("quant", False)
    known = [k for k in known if k.get("alg") == alg]

    def witness(E, m, lo, hi, pz):
        return dict(box=[[E.ev(m, lo[i]), E.ev(m, hi[i])] for i in range(n)], params=[E.ev(m, zi(p)) for p in pz])

    def body(E):
        P = propagators_module()
        fn = P.COMPUTE_DOMAINS_FCTS[alg_index(alg)]
        lo = [z3.Int(f"lo{i}") for i in range(n)]
        hi = [z3.Int(f"hi{i}") for i in range(n)]
        t = [z3.Int(f"t{i}") for i in range(n)]
        for i in range(n):
            E.solver.add(lo[i] <= hi[i], lo[i] >= -B, hi[i] <= B)
        pz = mk_params(E, cfg["params"], B)
        E.solver.add(contract(cfg, lo, hi, pz))
        if cfg.get("ground"):
            E.solver.add(AND([lo[i] == hi[i] for i in range(n)]))
        # structured boxes for the larger arities: some variables pinned to concrete values (so that value-indexed code follows
        # them without forking), the others symbolic with an optional bound on their width
        for i, v in (cfg.get("pin") or {}).items():
            E.solver.add(lo[int(i)] == v, hi[int(i)] == v)
        if cfg.get("width") is not None:
            for i in range(n):
                if str(i) not in (cfg.get("pin") or {}) and i not in (cfg.get("pin") or {}):
                    E.solver.add(hi[i] - lo[i] <= cfg["width"])
        E.ctx = dict(lo=lo, hi=hi, pz=pz, cfg=cfg)
        dom = SArray([SymInt(v) for pair in zip(lo, hi) for v in pair], (n, 2), dtype="int32")
        par = core.array([SymInt(p) if not isinstance(p, int) else p for p in pz], dtype=DType("int32"))

        def rec(prop, kind, m, cls=None, **extra):
            v = dict(prop=prop, kind=kind, alg=alg, n=n, cls=cls, **witness(E, m, lo, hi, pz))
            v.update(extra)
            E.acc.violation(v)

        def ask(props, kind, bad, tup=None, outz=None, status=None):
            if isinstance(props, str):
                props = (props,)
            for prop in props:
                if prop not in select:
                    continue
                ks = [k for k in known if k["kind"] == kind and k["prop"] == prop]
                preds = [CLASSES[k["cls"]](cfg, lo, hi, pz) for k in ks]
                q = z3.And(bad, z3.Not(OR(preds))) if preds else bad

                def extra(m):
                    e = dict(status=status)
                    if tup is not None:
                        e["tuple"] = [E.ev(m, x) for x in tup]
                    if outz is not None:
                        e["out"] = [[E.ev(m, a), E.ev(m, b)] for a, b in outz]
                    return e

                if E.query(q):
                    m = E.model()
                    rec(prop, kind, m, None, **extra(m))
                for k, pr in zip(ks, preds):
                    if E.query(z3.And(bad, pr)):
                        m = E.model()
                        rec(prop, kind, m, k["cls"], **extra(m))

        try:
            status = fn(dom, par)
        except Obligation as o:
            E.acc.count("obligation:" + o.kind)
            if "C16" in select or "C19" in select:
                m = o.model
                if m is not None:
                    rec("C16", o.kind, m, None, detail=o.detail)
                else:
                    E.acc.violation(dict(prop="C16", kind=o.kind, alg=alg, n=n, cls=None, detail=o.detail))
            return
        status = int(status) if not isinstance(status, SymInt) else E.concretize(status.e)
        E.acc.count(f"status:{status}")
        if "C15" in select and FLAGS.hazards and E.check():
            m = E.model()
            hz = FLAGS.hazards[0]
            E.acc.count("mode-hazard-paths")
            E.acc.violation(dict(prop="C15", kind="mode-hazard", alg=alg, n=n, site="hazard:" + str(hz.get("where"))[:80], cls=None, benign_if_not_reproduced=True, modes=["jit"], hazard=hz, hazards=len(FLAGS.hazards), **witness(E, m, lo, hi, pz)))
        out = dom.tolist()
        outz = [(as_z3int(o[0]), as_z3int(o[1])) for o in out]
        inbox = AND([z3.And(lo[i] <= t[i], t[i] <= hi[i]) for i in range(n)])
        rel = R(t, pz)
        ground = AND([lo[i] == hi[i] for i in range(n)])
        relg = R(lo, pz)
        gp = is_perm(lo) if alg in PERM_ALGS else z3.BoolVal(True)

        # per-path witness for validation against the real build
        if E.check():
            m = E.model()
            w = witness(E, m, lo, hi, pz)
            w.update(alg=alg, status=status, out=[[E.ev(m, a), E.ev(m, b)] for a, b in outz] if status != 0 else None)
            E.acc.valid(w)
            E.acc.sample(w)

        if status == 0:  # PROP_INCONSISTENCY
            ask(("C05", "C14") if alg in EXACT_ALGS else "C05", "false-inconsistency", z3.And(inbox, rel), tup=t, status=status)
            ask("C06", "ground-satisfying-rejected", z3.And(ground, gp, relg), status=status)
            if alg == "affine_eq" and "C14" in select:
                # inconsistency is legitimate exactly when no tuple of the box satisfies the equation (one round of interval
                # reasoning emptying a domain, or all variables with a non-zero coefficient instantiated on a violating point)
                ask("C14", "false-inconsistency", z3.And(inbox, rel), tup=t, status=status)
            return

        outbox = AND([z3.And(outz[i][0] <= t[i], t[i] <= outz[i][1]) for i in range(n)])
        shrink = AND([z3.And(outz[i][0] >= lo[i], outz[i][1] <= hi[i], outz[i][0] <= outz[i][1]) for i in range(n)])
        ask(("C05", "C14") if alg in EXACT_ALGS else "C05", "lost-tuple", z3.And(inbox, rel, z3.Not(outbox)), tup=t, outz=outz, status=status)
        ask("C05", "not-subset-or-empty", z3.Not(shrink), outz=outz, status=status)
        ask("C06", "ground-violating-accepted", z3.And(ground, gp, z3.Not(relg)), outz=outz, status=status)
        outground = AND([a == b for a, b in outz])
        relout = R([a for a, _ in outz], pz)
        gpo = is_perm([a for a, _ in outz]) if alg in PERM_ALGS else z3.BoolVal(True)
        ask("C06", "collapsed-to-violating-point", z3.And(outground, gpo, z3.Not(relout)), outz=outz, status=status)
        if status == 2:  # PROP_ENTAILMENT
            ask("C07", "premature-entailment", z3.And(outbox, z3.Not(rel)), tup=t, outz=outz, status=status)

        if "C14" in select and alg in EXACT_ALGS:
            base = cfg.get("base", "sym")
            L = z3.Int("L") if base == "sym" else z3.IntVal(base)
            bnd = AND([z3.And(lo[i] >= L, hi[i] <= L + D) for i in range(n)])
            sup = []
            for offs in itertools.product(range(D + 1), repeat=n):
                tp = [L + o for o in offs]
                c = z3.simplify(z3.And(AND([z3.And(lo[i] <= tp[i], tp[i] <= hi[i]) for i in range(n)]), R(tp, pz)))
                if not z3.is_false(c):
                    sup.append((tp, c))
            bads = [z3.Not(OR([c for _, c in sup]))]
            for i in range(n):
                bads.append(z3.Not(OR([z3.And(c, tp[i] == outz[i][0]) for tp, c in sup])))
                bads.append(z3.Not(OR([z3.And(c, tp[i] == outz[i][1]) for tp, c in sup])))
            ask("C14", "not-hull", z3.And(bnd, OR(bads)), outz=outz, status=status)
            if quant:
                # unbounded-value variant: exists-quantified support, decided by z3 where it answers
                for i in range(n):
                    for side in (0, 1):
                        s2 = z3.Solver()
                        s2.set("timeout", 3000)
                        s2.add(E.solver.assertions())
                        s2.add(z3.ForAll(t, z3.Not(z3.And(inbox, rel, t[i] == outz[i][side]))))
                        r = s2.check()
                        E.stats["prop_queries"] += 1
                        E.acc.count("quant:" + str(r))
                        if r == z3.sat:
                            m = s2.model()
                            rec("C14", "not-hull", m, "quantified", out=[[E.ev(m, a), E.ev(m, b)] for a, b in outz], status=status)
        if "C14" in select and alg == "affine_eq":
            ref = affine_ref(lo, hi, pz)
            ask("C14", "affine-eq-ref-mismatch", OR([z3.Or(a != c, b != d) for (a, b), (c, d) in zip(outz, ref)]), outz=outz, status=status)
        if "C14" in select and alg in EXACT_ALGS:
            # idempotence: a second consecutive call changes nothing
            dom2 = SArray([x for o in out for x in o], (n, 2), dtype="int32")
            try:
                status2 = fn(dom2, par)
            except Obligation as o:
                E.acc.count("obligation2:" + o.kind)
                return
            status2 = int(status2)
            out2 = dom2.tolist()
            if status2 == 0:
                ask("C14", "second-call-fails", z3.BoolVal(True), outz=outz, status=status)
            else:
                ch = OR([z3.Or(as_z3int(out2[i][0]) != outz[i][0], as_z3int(out2[i][1]) != outz[i][1]) for i in range(n)])
                ask("C14", "not-idempotent", ch, outz=outz, status=status)

    def on_abort(E, kind, exc):
        if kind == "budget":
            E.acc.count("abort:budget")
            c = getattr(E, "ctx", None)
            if not c:
                return
            ks = [k for k in known if k["kind"] == "budget" and k["prop"] == "C04"]
            preds = [CLASSES[k["cls"]](cfg, c["lo"], c["hi"], c["pz"]) for k in ks]
            if "C04" not in select:
                if E.check(z3.Not(OR(preds))):
                    E.acc.count("budget-unlisted")
                return
            if E.check(z3.Not(OR(preds))):
                m = E.model()
                E.acc.violation(dict(prop="C04", kind="budget", alg=alg, n=n, cls=None, detail=str(exc), **witness(E, m, c["lo"], c["hi"], c["pz"])))
            for k, pr in zip(ks, preds):
                if E.check(pr):
                    m = E.model()
                    E.acc.violation(dict(prop="C04", kind="budget", alg=alg, n=n, cls=k["cls"], detail=str(exc), **witness(E, m, c["lo"], c["hi"], c["pz"])))

    body.on_abort = on_abort
    return body


@register("prop_ties")
def make_ties(cfg):
    """C15: the result of a filtering call does not depend on how argsort breaks ties (NumPy's introsort and Numba's
    quicksort are both unstable and need not agree): any sorting permutation vs the stable one, same symbolic box"""
    alg, n = cfg["alg"], cfg["n"]
    B = VAL_B

    def body(E):
        P = propagators_module()
        fn = P.COMPUTE_DOMAINS_FCTS[alg_index(alg)]
        lo = [z3.Int(f"lo{i}") for i in range(n)]
        hi = [z3.Int(f"hi{i}") for i in range(n)]
        for i in range(n):
            E.solver.add(lo[i] <= hi[i], lo[i] >= -B, hi[i] <= B)
        pz = mk_params(E, cfg["params"], B)
        E.solver.add(contract(cfg, lo, hi, pz))
        par = core.array([SymInt(p) if not isinstance(p, int) else p for p in pz], dtype=DType("int32"))

        def run(all_ties):
            FLAGS.argsort_all_ties = all_ties
            dom = SArray([SymInt(v) for pair in zip(lo, hi) for v in pair], (n, 2), dtype="int32")
            st = int(fn(dom, par))
            return st, [(as_z3int(o[0]), as_z3int(o[1])) for o in dom.tolist()]

        try:
            st1, out1 = run(True)
            st2, out2 = run(False)
        except Obligation:
            E.acc.count("obligation")
            return
        finally:
            FLAGS.argsort_all_ties = True
        E.acc.count(f"status:{st1}/{st2}")
        bad = z3.BoolVal(st1 != st2)
        if st1 == st2 and st1 != 0:
            bad = OR([z3.Or(a != c, b != d) for (a, b), (c, d) in zip(out1, out2)])
        if E.query(bad):
            m = E.model()
            E.acc.violation(dict(prop="C15", kind="result-depends-on-sort-tie-order", alg=alg, n=n, cls=None, harness="prop", box=[[E.ev(m, a), E.ev(m, b)] for a, b in zip(lo, hi)], params=[E.ev(m, zi(p)) for p in pz], any_order=[st1, [[E.ev(m, a), E.ev(m, b)] for a, b in out1]], stable_order=[st2, [[E.ev(m, a), E.ev(m, b)] for a, b in out2]], modes=["interpreted"]))

    return body
