"""z3 encoders of the documented relation of each shipped constraint (written from docs/source/reference.rst and the
docstrings; they share no code with the propagators).  R(t, p): t list of z3 Int terms, p list of ints / z3 Int terms."""
import z3


def zmax(xs):
    m = xs[0]
    for x in xs[1:]:
        m = z3.If(x > m, x, m)
    return m


def zmin(xs):
    m = xs[0]
    for x in xs[1:]:
        m = z3.If(x < m, x, m)
    return m


def zsum(xs):
    xs = list(xs)
    if not xs:
        return z3.IntVal(0)
    if len(xs) == 1:
        return xs[0] + 0
    return z3.Sum(xs)


def AND(xs):
    xs = list(xs)
    return z3.And(xs) if xs else z3.BoolVal(True)


def OR(xs):
    xs = list(xs)
    return z3.Or(xs) if xs else z3.BoolVal(False)


def is_bool(t):
    return AND([z3.And(x >= 0, x <= 1) for x in t])


def R_and(t, p):
    return z3.And(is_bool(t), z3.If(AND([x == 1 for x in t[:-1]]), 1, 0) == t[-1])


def _lin(t, p):
    return zsum([c * x for c, x in zip(p[:-1], t)])


def R_affine_eq(t, p):
    return _lin(t, p) == p[-1]


def R_affine_geq(t, p):
    return _lin(t, p) >= p[-1]


def R_affine_leq(t, p):
    return _lin(t, p) <= p[-1]


def R_alldifferent(t, p):
    return z3.Distinct(*t) if len(t) > 1 else z3.BoolVal(True)


def R_count_eq(t, p):
    return zsum([z3.If(x == p[0], 1, 0) for x in t[:-1]]) == t[-1]


def R_dummy(t, p):
    return z3.BoolVal(True)


def R_element_iv(t, p):
    i, v = t
    return OR([z3.And(i == k, v == p[k]) for k in range(len(p))])


def R_element_lic(t, p):
    l, i = t[:-1], t[-1]
    return OR([z3.And(i == k, l[k] == p[0]) for k in range(len(l))])


def R_element_liv(t, p):
    l, i, v = t[:-2], t[-2], t[-1]
    return OR([z3.And(i == k, v == l[k]) for k in range(len(l))])


def R_exactly_eq(t, p):
    return zsum([z3.If(x == p[0], 1, 0) for x in t]) == p[1]


def R_exactly_true(t, p):
    return z3.And(is_bool(t), zsum([z3.If(x == 1, 1, 0) for x in t]) == p[0])


def R_gcc(t, p):
    m = (len(p) - 1) // 2
    v0 = p[0]
    cs = [z3.And(x >= v0, x < v0 + m) for x in t]
    for j in range(m):
        cnt = zsum([z3.If(x == v0 + j, 1, 0) for x in t])
        cs.append(z3.And(cnt >= p[1 + j], cnt <= p[1 + m + j]))
    return AND(cs)


def R_lexicographic_leq(t, p):
    n = len(t) // 2
    x, y = t[:n], t[n:]
    r = z3.BoolVal(True)
    for i in reversed(range(n)):
        r = z3.Or(x[i] < y[i], z3.And(x[i] == y[i], r))
    return r


def R_max_eq(t, p):
    return zmax(t[:-1]) == t[-1]


def R_max_leq(t, p):
    return zmax(t[:-1]) <= t[-1]


def R_min_eq(t, p):
    return zmin(t[:-1]) == t[-1]


def R_min_geq(t, p):
    return zmin(t[:-1]) >= t[-1]


def is_perm(t):
    n = len(t)
    return z3.And(AND([z3.And(x >= 0, x < n) for x in t]), z3.Distinct(*t) if n > 1 else z3.BoolVal(True))


def _succ(t, j):
    """t[j] for a term j"""
    r = t[-1]
    for k in range(len(t) - 2, -1, -1):
        r = z3.If(j == k, t[k], r)
    return r


def R_single_cycle(t, p):
    """permutation whose orbit of 0 has length n: s^k(0) != 0 for 0 < k < n"""
    n = len(t)
    cs = [is_perm(t)]
    cur = z3.IntVal(0)
    for k in range(1, n):
        cur = _succ(t, cur)
        cs.append(cur != 0)
    return AND(cs)


R_no_sub_cycle = R_single_cycle
R_scc = R_single_cycle


def R_relation(t, p):
    n = len(t)
    rows = [p[k : k + n] for k in range(0, len(p), n)]
    return OR([AND([t[j] == r[j] for j in range(n)]) for r in rows])


ZREL = {
    "and": R_and,
    "affine_eq": R_affine_eq,
    "affine_geq": R_affine_geq,
    "affine_leq": R_affine_leq,
    "alldifferent": R_alldifferent,
    "count_eq": R_count_eq,
    "dummy": R_dummy,
    "element_iv": R_element_iv,
    "element_lic": R_element_lic,
    "element_liv": R_element_liv,
    "exactly_eq": R_exactly_eq,
    "exactly_true": R_exactly_true,
    "gcc": R_gcc,
    "lexicographic_leq": R_lexicographic_leq,
    "max_eq": R_max_eq,
    "max_leq": R_max_leq,
    "min_eq": R_min_eq,
    "min_geq": R_min_geq,
    "no_sub_cycle": R_no_sub_cycle,
    "relation": R_relation,
    "scc": R_scc,
}
