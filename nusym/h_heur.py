"""Value-heuristic / choice-point harness: one real branching step from an ARBITRARY stack state (np.empty havoc),
then the real backtrack() down to the level we started from.  Serves C09, C07 (history part), C16, C19 (stack part)."""
import z3

from . import core
from .core import ENGINE, SArray, SymInt, SymBool, Obligation, as_z3int, as_z3bool, DType
from .explore import register
from .relations import AND, OR

MIN_E, MAX_E, GROUND_E = 1, 2, 4
HEUR_NAMES = ["min_value", "max_value", "split_low", "mid_value", "min_cost"]
TRIGGER_TABLES = [[[1, 2], [4, 7]], [[4, 3], [2, 1]], [[7, 0], [0, 7]]]


def _mods():
    import nucs.heuristics.heuristics as H
    import nucs.solvers.choice_points as CP

    return H, CP


@register("heur")
def make(hname, height=5, tops=(0, 1, 2), ND=2, NP=2, W=4, table=0, select=("C09",), known=()):
    select = set(select)
    hidx_name = "DOM_HEURISTIC_" + hname.upper()
    B = 1 << 30
    known = [k for k in known if k.get("site") == hname]

    def body(E):
        H, CP = _mods()
        hidx = getattr(H, hidx_name)
        top = tops[E.choose(len(tops), "top")]
        dom_idx = E.choose(ND, "dom_idx")
        i32, u16, u8, b8, i64 = DType("int32"), DType("uint16"), DType("uint8"), DType("bool"), DType("int64")
        stack = core.empty((height, ND, 2), i32)
        ne = core.empty((height, NP), b8)
        du = core.empty((height, 2), u16)
        st = core.array([top], dtype=u8)
        a, b = as_z3int(stack[top, dom_idx, 0]), as_z3int(stack[top, dom_idx, 1])
        E.solver.add(a < b, a >= -B, b <= B)
        if hname == "min_cost":
            # contract explored: a cost table covering the values of the domain, selectable costs > 0 (ties allowed)
            E.solver.add(a >= 0, b < W)
            costs = [[z3.Int(f"cost{d}_{v}") for v in range(W)] for d in range(ND)]
            for row in costs:
                for c in row:
                    E.solver.add(c >= 1, c <= 3)
            params = SArray([SymInt(c) for row in costs for c in row], (ND, W), dtype="int64")
        else:
            params = core.array([[]], dtype=i64)
        before = stack.copy()
        ne_before = ne.copy()
        du_before = du.copy()

        def wit(m):
            w = dict(heuristic=hname, top=top, dom_idx=dom_idx, height=height, a=E.ev(m, a), b=E.ev(m, b), table=table, ND=ND, NP=NP)
            if hname == "min_cost":
                w["costs"] = [[E.ev(m, c) for c in row] for row in costs]
            return w

        def viol(prop, kind, m, cls=None, **kw):
            v = dict(prop=prop, kind=kind, site=hname, cls=cls, harness="heur", **wit(m))
            v.update(kw)
            E.acc.violation(v)

        def ask(prop, kind, bad, **kw):
            if prop not in select:
                return
            ks = [k for k in known if k["kind"] == kind and k["prop"] == prop]
            if ks:
                # input classes for this harness: only "any" (the whole call site / kind)
                if E.query(bad):
                    viol(prop, kind, E.model(), ks[0]["cls"], **kw)
                return
            if E.query(bad):
                viol(prop, kind, E.model(), None, **kw)

        try:
            events = H.DOM_HEURISTIC_FCTS[hidx](params, stack, ne, du, st, dom_idx)
        except Obligation as o:
            E.acc.count("obligation:" + o.kind)
            if o.model is not None and ("C16" in select or "C19" in select):
                viol("C19" if "C19" in select else "C16", o.kind, o.model, None, detail=o.detail)
            return
        newtop = int(st[0])
        E.acc.count(f"pushed:{newtop - top}")
        if isinstance(events, SymInt):
            events = E.concretize(events.e)
        t = z3.Int("t")
        levels = list(range(top, newtop + 1))
        ranges = [(as_z3int(stack[l, dom_idx, 0]), as_z3int(stack[l, dom_idx, 1])) for l in levels]
        inside = [z3.And(lo <= t, t <= hi) for lo, hi in ranges]
        rz = lambda m: [[E.ev(m, x), E.ev(m, y)] for x, y in ranges]  # noqa: E731
        if newtop == top:
            ask("C09", "no-choice-point-created", z3.BoolVal(True))
            return
        ask("C09", "value-lost", z3.And(a <= t, t <= b, z3.Not(OR(inside))))
        ask("C09", "value-invented", z3.And(OR(inside), z3.Not(z3.And(a <= t, t <= b))))
        ask("C09", "empty-part", OR([lo > hi for lo, hi in ranges]))
        ask("C09", "overlap", OR([z3.And(inside[i], inside[j]) for i in range(len(inside)) for j in range(i + 1, len(inside))]))
        other = []
        flags = []
        for l in levels:
            for d in range(ND):
                if d != dom_idx:
                    for c in (0, 1):
                        other.append(as_z3int(stack[l, d, c]) != as_z3int(before[top, d, c]))
            for p in range(NP):
                flags.append(as_z3bool(ne[l, p]) != as_z3bool(ne_before[top, p]))
        ask("C09", "other-domain-touched", OR(other))
        ask(("C07" if "C07" in select else "C09"), "flags-not-copied", OR(flags))
        # levels below the old top are untouched
        below = []
        for l in range(0, top):
            for d in range(ND):
                for c in (0, 1):
                    below.append(as_z3int(stack[l, d, c]) != as_z3int(before[l, d, c]))
            for p in range(NP):
                below.append(as_z3bool(ne[l, p]) != as_z3bool(ne_before[l, p]))
            for c in (0, 1):
                below.append(as_z3int(du[l, c]) != as_z3int(du_before[l, c]))
        ask("C09", "lower-level-touched", OR(below))
        # events announced for the branch taken (the range at newtop)
        lo, hi = ranges[-1]
        need = [(MIN_E, lo != a), (MAX_E, hi != b), (GROUND_E, lo == hi)]
        ask("C09", "event-not-announced", OR([z3.And(c, z3.BoolVal((events & bit) == 0)) for bit, c in need]), events=events)
        # events recorded for each alternative taken later on backtracking
        rec_bad = []
        recs = {}
        for l in levels[:-1]:
            lo, hi = as_z3int(stack[l, dom_idx, 0]), as_z3int(stack[l, dom_idx, 1])
            rec_bad.append(as_z3int(du[l, 0]) != dom_idx)
            r = du[l, 1]
            r = E.concretize(as_z3int(r)) if not isinstance(r, int) else r
            recs[l] = r
            for bit, c in ((MIN_E, lo != a), (MAX_E, hi != b), (GROUND_E, lo == hi)):
                rec_bad.append(z3.And(c, z3.BoolVal((r & bit) == 0)))
        ask("C09", "alternative-event-not-recorded", OR(rec_bad), recorded=recs)

        # ---- history part: clear arbitrary flags on the new top row (what BC does on entailment), then backtrack
        for p in range(NP):
            cur = ne[newtop, p]
            ne[newtop, p] = cur & E.new_bool(f"keep{p}") if isinstance(cur, SymBool) else (cur and E.new_bool(f"keep{p}"))
        saved_dom = stack.copy()
        saved_ne = ne.copy()
        triggers = core.array(TRIGGER_TABLES[table], dtype=u8)
        stats = core.zeros(13, i64)
        cur_top = newtop
        while cur_top > top:
            trig = core.zeros(NP, b8)
            try:
                ok = CP.backtrack(stats, ne, du, st, trig, triggers)
            except Obligation as o:
                # backtrack() used what the heuristic recorded for this alternative as an index: it was never written
                E.acc.count("obligation:" + o.kind)
                if o.model is not None:
                    viol("C09", "alternative-record-unusable-on-backtrack", o.model, None, detail=o.detail, level=cur_top - 1)
                return
            cur_top -= 1
            bad = [z3.BoolVal(not ok), z3.BoolVal(int(st[0]) != cur_top)]
            for d in range(ND):
                for c in (0, 1):
                    bad.append(as_z3int(stack[cur_top, d, c]) != as_z3int(saved_dom[cur_top, d, c]))
            for p in range(NP):
                bad.append(as_z3bool(ne[cur_top, p]) != as_z3bool(saved_ne[cur_top, p]))
                # watchers of the recorded (domain, events) pair are re-queued, nothing else
                want = z3.And(as_z3bool(saved_ne[cur_top, p]), z3.BoolVal((TRIGGER_TABLES[table][dom_idx][p] & recs[cur_top]) != 0))
                bad.append(as_z3bool(trig[p]) != want)
            ask(("C07" if "C07" in select else "C09"), "backtrack-does-not-restore", OR(bad), level=cur_top)
        ask("C09", "backtrack-count", z3.BoolVal(int(stats[9]) != newtop - top))

    return body


@register("backtrack0")
def make_bt0(height=3, select=("C09",)):
    """backtrack() at the bottom of the stack returns False and changes nothing"""

    def body(E):
        H, CP = _mods()
        u16, u8, b8, i64 = DType("uint16"), DType("uint8"), DType("bool"), DType("int64")
        ne = core.empty((height, 2), b8)
        du = core.empty((height, 2), u16)
        st = core.array([0], dtype=u8)
        trig = SArray([E.new_bool("q0"), E.new_bool("q1")], (2,), dtype="bool")
        t0 = trig.copy()
        ne0 = ne.copy()
        stats = core.zeros(13, i64)
        ok = CP.backtrack(stats, ne, du, st, trig, core.array([[7, 7], [7, 7]], dtype=u8))
        bad = [z3.BoolVal(bool(ok)), z3.BoolVal(int(st[0]) != 0), z3.BoolVal(int(stats[9]) != 0)]
        for p in range(2):
            bad.append(as_z3bool(trig[p]) != as_z3bool(t0[p]))
            for l in range(height):
                bad.append(as_z3bool(ne[l, p]) != as_z3bool(ne0[l, p]))
        E.acc.count("bt0")
        if E.query(OR(bad)):
            E.acc.violation(dict(prop="C09", kind="backtrack-at-bottom", site="backtrack", cls=None, harness="heur"))

    return body


VARH_NAMES = ["first_not_instantiated", "smallest_domain", "greatest_domain", "max_regret"]


@register("varheur")
def make_varheur(vname, ND=3, W=4, select=("C04",)):
    """one call of a variable heuristic from an arbitrary level: whenever some decision domain is not instantiated the
    heuristic returns one of them (never -1, never an instantiated or a non-decision domain)"""
    select = set(select)

    def body(E):
        import nucs.heuristics.heuristics as H

        i32, u16, u8, i64 = DType("int32"), DType("uint16"), DType("uint8"), DType("int64")
        height = 3
        top = E.choose(2, "top")
        stack = core.empty((height, ND, 2), i32)
        st = core.array([top], dtype=u8)
        lo = [as_z3int(stack[top, d, 0]) for d in range(ND)]
        hi = [as_z3int(stack[top, d, 1]) for d in range(ND)]
        for d in range(ND):
            E.solver.add(lo[d] <= hi[d], lo[d] >= (0 if vname == "max_regret" else -(1 << 30)), hi[d] <= (W - 1 if vname == "max_regret" else (1 << 30)))
        # decision domains: any non-empty subset, in any order without repetition
        subsets = [[0, 1, 2], [2, 0], [1], [0, 2, 1], [2]]
        dec = subsets[E.choose(len(subsets), "decision")]
        if vname == "max_regret":
            costs = [[z3.Int(f"cost{d}_{v}") for v in range(W)] for d in range(ND)]
            for row in costs:
                for c in row:
                    E.solver.add(c >= 1, c <= 3)
            params = SArray([SymInt(c) for row in costs for c in row], (ND, W), dtype="int64")
        else:
            params = core.array([[]], dtype=i64)
        fn = H.VAR_HEURISTIC_FCTS[getattr(H, "VAR_HEURISTIC_" + vname.upper())]
        try:
            r = fn(params, core.array(dec, dtype=u16), stack, st)
        except Obligation as o:
            E.acc.count("obligation:" + o.kind)
            if o.model is not None:
                E.acc.violation(dict(prop="C16" if "C16" in select else "C04", kind="varheur-" + o.kind, site=vname, cls=None, harness="varheur", detail=o.detail, decision=dec))
            return
        rz = as_z3int(r)
        free = OR([lo[d] < hi[d] for d in dec])
        good = OR([z3.And(rz == d, lo[d] < hi[d]) for d in dec])
        E.acc.count("returned")
        if E.query(z3.And(free, z3.Not(good))):
            m = E.model()
            v = dict(prop="C04", kind="no-variable-selected-although-one-is-free", site=vname, cls=None, harness="varheur", decision=dec, top=top, doms=[[E.ev(m, lo[d]), E.ev(m, hi[d])] for d in range(ND)], returned=E.ev(m, rz))
            if vname == "max_regret":
                v["costs"] = [[E.ev(m, c) for c in row] for row in costs]
            E.acc.violation(v)
        if E.query(z3.And(z3.Not(free), rz != -1)):
            m = E.model()
            E.acc.violation(dict(prop="C04", kind="variable-selected-although-none-is-free", site=vname, cls=None, harness="varheur", decision=dec, returned=E.ev(m, rz)))

    return body
