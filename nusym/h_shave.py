"""Shaving harnesses (C10).
A  shave_vs_bc: from ONE symbolic search state the real shaving_consistency_algorithm and (on an identical copy) the real
   bound_consistency_algorithm: stack height unchanged, lower levels untouched, shaving's box inside BC's box, no solution
   of the entry box lost, shaving fails only without solution, BC fails => shaving fails.
B  shave_bound alone, bound consistency replaced by its contract stub (any status; may only shrink the current level):
   refuted => the level below has exactly the bound value removed; not refuted => the level below is bit-for-bit the
   original; the stack pointer is restored.
"""
import z3

from . import core
from .core import ENGINE, Obligation, SArray, SymInt, as_z3bool, as_z3int, DType
from .explore import register
from .relations import AND, OR
from . import h_solve


@register("shave_vs_bc")
def make_a(model, state="root", D=None, decision=None):
    md = h_solve.MODELS[model]

    def body(E):
        mods = h_solve._mods()
        H, P, BS, BCA, CP, CA, SH, Problem = mods
        ctx = h_solve.Ctx(E, md, D)
        nd = md["doms"]
        kw = dict(stack_max_height=4 * nd + 8)
        if decision is not None:
            kw["decision_domains"] = list(decision)
        s1 = BS.BacktrackSolver(ctx.build(Problem, P), **kw)
        s2 = BS.BacktrackSolver(ctx.build(Problem, P), **kw)

        def args(s):
            pb = s.problem
            return (s.statistics, pb.algorithms, pb.var_bounds, pb.param_bounds, pb.dom_indices_arr, pb.dom_offsets_arr, pb.props_dom_indices, pb.props_dom_offsets, pb.props_parameters, pb.triggers, s.shr_domains_stack, s.not_entailed_propagators_stack, s.dom_update_stack, s.stacks_top, s.triggered_propagators, core.empty(0), s.decision_domains)

        def viol(kind, m=None, **kw2):
            if m is None:
                m = E.model() if E.check() else None
            v = dict(prop="C10", kind=kind, site=f"shaving/{model}/{state}", cls=None, harness="shave", model=model, state=state, decision=decision)
            if m is not None:
                v.update(ctx.witness(m))
            v.update(kw2)
            E.acc.violation(v)

        try:
            if state == "after_choice":
                for s in (s1, s2):
                    st0 = BCA.bound_consistency_algorithm(*args(s))
                    if st0 != 1:  # only an UNBOUND state is branched on
                        E.acc.count("root-not-unbound")
                        return
                    d = H.VAR_HEURISTIC_FCTS[H.VAR_HEURISTIC_FIRST_NOT_INSTANTIATED](s.var_heuristic_params, s.decision_domains, s.shr_domains_stack, s.stacks_top)
                    if int(d) < 0:
                        E.acc.count("no-decision-domain-left")  # the decision subset does not determine the rest: solve_one refuses
                        return
                    ev = H.DOM_HEURISTIC_FCTS[H.DOM_HEURISTIC_MIN_VALUE](s.dom_heuristic_params, s.shr_domains_stack, s.not_entailed_propagators_stack, s.dom_update_stack, s.stacks_top, d)
                    P.add_propagators(s.triggered_propagators, s.not_entailed_propagators_stack[s.stacks_top[0]], s.problem.triggers, d, ev)
            top = int(s1.stacks_top[0])
            entry = [(as_z3int(s1.shr_domains_stack[top, d, 0]), as_z3int(s1.shr_domains_stack[top, d, 1])) for d in range(nd)]
            below = [s1.shr_domains_stack[l].copy() for l in range(top)]
            ne_below = [s1.not_entailed_propagators_stack[l].copy() for l in range(top)]
            st_sh = SH.shaving_consistency_algorithm(*args(s1))
            st_bc = BCA.bound_consistency_algorithm(*args(s2))
        except Obligation as o:
            E.acc.count("obligation:" + o.kind)
            if o.model is not None:
                viol("obligation-" + o.kind, o.model, detail=o.detail)
            return
        E.acc.count(f"status:{st_sh}/{st_bc}")
        if int(s1.stacks_top[0]) != top:
            viol("stack-height-changed", top_before=top, top_after=int(s1.stacks_top[0]))
            return
        bad = []
        for l in range(top):
            bad += [as_z3int(a) != as_z3int(b) for a, b in zip(s1.shr_domains_stack[l].flat_values(), below[l].flat_values())]
            bad += [as_z3bool(a) != as_z3bool(b) for a, b in zip(s1.not_entailed_propagators_stack[l].flat_values(), ne_below[l].flat_values())]
        if bad and E.query(OR(bad)):
            viol("lower-level-modified")
        x = [z3.Int(f"x{d}") for d in range(nd)]
        vt = ctx.var_terms(x)
        sem_entry = z3.And(AND([z3.And(entry[d][0] <= x[d], x[d] <= entry[d][1]) for d in range(nd)]), ctx.all_R(vt))
        if st_sh == 0:
            if E.query(sem_entry):
                m = E.model()
                viol("fails-although-a-solution-exists", m, solution=[E.ev(m, t) for t in vt])
            return
        if st_bc == 0:
            viol("bc-fails-but-shaving-does-not")
            return
        sh = [(as_z3int(s1.shr_domains_stack[top, d, 0]), as_z3int(s1.shr_domains_stack[top, d, 1])) for d in range(nd)]
        bc = [(as_z3int(s2.shr_domains_stack[top, d, 0]), as_z3int(s2.shr_domains_stack[top, d, 1])) for d in range(nd)]
        if E.query(OR([z3.Or(a < c, b > d_) for (a, b), (c, d_) in zip(sh, bc)])):
            m = E.model()
            viol("not-contained-in-bc-result", m, shaving=[[E.ev(m, a), E.ev(m, b)] for a, b in sh], bc=[[E.ev(m, a), E.ev(m, b)] for a, b in bc])
        if E.query(z3.And(sem_entry, OR([z3.Or(x[d] < sh[d][0], x[d] > sh[d][1]) for d in range(nd)]))):
            m = E.model()
            viol("solution-shaved-away", m, solution=[E.ev(m, t) for t in vt], shaving=[[E.ev(m, a), E.ev(m, b)] for a, b in sh])
        # a strengthening of bound consistency: what shaving returns is itself a bound-consistency fixpoint (every successful shave
        # is followed by a pass, an unsuccessful probe is undone).  The queue need not be empty: undoing a probe re-announces the
        # probed bound, which wakes constraints that have nothing left to do - a further pass must change nothing.
        # Not asked for models with affine_eq: it is not idempotent (known finding KF-affine_eq-not-idempotent, C08), so a plain
        # bound-consistency pass does not end on a fixpoint of it either and a re-woken affine_eq may prune further
        if any(alg == "affine_eq" for _, alg, _ in md["props"]):
            return
        try:
            st_again = BCA.bound_consistency_algorithm(*args(s1))
        except Obligation as o:
            E.acc.count("obligation:" + o.kind)
            return
        if st_again == 0:
            viol("result-is-not-bound-consistent", again="fails")
        else:
            again = [(as_z3int(s1.shr_domains_stack[top, d, 0]), as_z3int(s1.shr_domains_stack[top, d, 1])) for d in range(nd)]
            if E.query(OR([z3.Or(a != c, b != d_) for (a, b), (c, d_) in zip(sh, again)])):
                m = E.model()
                viol("result-is-not-bound-consistent", m, shaving=[[E.ev(m, a), E.ev(m, b)] for a, b in sh], again=[[E.ev(m, a), E.ev(m, b)] for a, b in again])
        if E.check():
            m = E.model()
            E.acc.sample(dict(model=model, state=state, **ctx.witness(m), shaving=[[E.ev(m, a), E.ev(m, b)] for a, b in sh], bc=[[E.ev(m, a), E.ev(m, b)] for a, b in bc]))

    return body


@register("shave_bound")
def make_b(height=5):
    def body(E):
        H, P, BS, BCA, CP, CA, SH, Problem = h_solve._mods()
        i32, u16, u8, b8, i64 = DType("int32"), DType("uint16"), DType("uint8"), DType("bool"), DType("int64")
        ND, NP = 2, 2
        top = E.choose(3, "top")
        bound = E.choose(2, "bound")
        stack = core.empty((height, ND, 2), i32)
        ne = core.empty((height, NP), b8)
        du = core.empty((height, 2), u16)
        st = core.array([top], dtype=u8)
        a, b = as_z3int(stack[top, 0, 0]), as_z3int(stack[top, 0, 1])
        E.solver.add(a < b, a >= -(1 << 30), b <= (1 << 30))
        before = stack.copy()
        ne_before = ne.copy()
        real_bc = SH.bound_consistency_algorithm
        chosen = {}

        def bc_stub(statistics, algorithms, vb, pb_, dia, doa, pdi, pdo, pp, triggers, stack_, ne_, du_, st_, trig, addrs, dec):
            # contract of a propagation pass (decided on the real one in C08): any status; only the current level may shrink
            t = int(st_[0])
            chosen["level"] = t
            for d in range(ND):
                lo_, hi_ = as_z3int(stack_[t, d, 0]), as_z3int(stack_[t, d, 1])
                nlo, nhi = E.new_int(), E.new_int()
                E.solver.add(nlo.e >= lo_, nhi.e <= hi_)
                stack_[t, d, 0] = nlo
                stack_[t, d, 1] = nhi
            for p in range(NP):
                cur = ne_[t, p]
                ne_[t, p] = (cur & E.new_bool()) if not isinstance(cur, bool) else (cur and E.new_bool())
            s_ = E.choose(3, "bc-status")
            chosen["status"] = s_
            return s_

        SH.bound_consistency_algorithm = bc_stub
        tables = [[[1, 2], [4, 7]], [[4, 3], [2, 1]], [[2, 1], [7, 4]]]
        table = tables[E.choose(len(tables), "watchers")]
        trig = core.zeros(NP, b8)
        try:
            shaved = SH.shave_bound(bound, 0, core.zeros(13, i64), None, None, None, None, None, None, None, None, core.array(table, dtype=u8), stack, ne, du, st, trig, None, None)
        except Obligation as o:
            E.acc.count("obligation:" + o.kind)
            return
        finally:
            SH.bound_consistency_algorithm = real_bc
        E.acc.count(f"shaved:{bool(shaved)}")

        def viol(kind):
            m = E.model() if E.check() else None
            v = dict(prop="C10", kind=kind, site="shave_bound", cls=None, harness="shave", top=top, bound=bound, bc_status=chosen.get("status"), watchers=table, height=height, modes=["interpreted"])
            if m is not None:
                v.update(a=E.ev(m, a), b=E.ev(m, b))
            E.acc.violation(v)

        if int(st[0]) != top:
            viol("stack-height-changed")
            return
        if bool(shaved) != (chosen.get("status") == 0):
            viol("refutation-verdict-differs-from-propagation-status")
        if chosen.get("level") != top + 1:
            viol("probe-not-run-one-level-above")
        cur = [(as_z3int(stack[top, d, 0]), as_z3int(stack[top, d, 1])) for d in range(ND)]
        old = [(as_z3int(before[top, d, 0]), as_z3int(before[top, d, 1])) for d in range(ND)]
        if shaved:
            want0 = (old[0][0] + 1, old[0][1]) if bound == 0 else (old[0][0], old[0][1] - 1)
        else:
            want0 = old[0]
        bad = [cur[0][0] != want0[0], cur[0][1] != want0[1], cur[1][0] != old[1][0], cur[1][1] != old[1][1]]
        for p in range(NP):
            bad.append(as_z3bool(ne[top, p]) != as_z3bool(ne_before[top, p]))
        for l in range(top):
            bad += [as_z3int(x) != as_z3int(y) for x, y in zip(stack[l].flat_values(), before[l].flat_values())]
            bad += [as_z3bool(x) != as_z3bool(y) for x, y in zip(ne[l].flat_values(), ne_before[l].flat_values())]
        if E.query(OR(bad)):
            viol("level-below-not-as-specified" if shaved else "undo-does-not-restore-the-level")
        if shaved:
            # the bound that was shaved moved at this level: every enabled watcher of that event must be queued
            lo_, hi_ = cur[0]
            need = [(1 if bound == 0 else 2, z3.BoolVal(True)), (4, lo_ == hi_)]
            miss = []
            for p in range(NP):
                for bit, cond in need:
                    if table[0][p] & bit:
                        miss.append(z3.And(cond, as_z3bool(ne_before[top, p]), z3.Not(as_z3bool(trig[p]))))
            if miss and E.query(OR(miss)):
                viol("shaved-bound-not-announced-to-its-watchers")

    return body
