"""Scope catalogues (DESIGN section 2): propagator configurations per tier."""

S = ["s"]


def sr(lo, hi):
    return ["s", lo, hi]


def prop_catalogue(tier):
    q = tier == "quick"
    C = []

    def add(alg, n, params, **kw):
        C.append(dict(alg=alg, n=n, params=params, **kw))

    # and: boolean box
    for n in (2, 3) if q else (2, 3, 4):
        add("and", n, [], D=1, base=0)
    # linear: coefficient grid chosen by rule (zero-containing, mixed-sign, equal-magnitude, coprime, non-coprime), rhs symbolic
    vecs = {
        1: [[1], [-2], [3], [0]],
        2: [[1, -1], [2, 2], [2, -3], [0, 1], [-1, -2], [0, 0]],
        3: [[1, 1, 1], [2, -3, 1], [1, -2, 0], [-1, -1, 2]],
    }
    if not q:
        import itertools

        vecs = {
            1: [[c] for c in range(-3, 4)],
            2: [list(v) for v in itertools.product(range(-3, 4), repeat=2)],
            3: [list(v) for v in itertools.product(range(-2, 3), repeat=3)],
            4: [[1, 1, 1, 1], [2, -1, 3, -2], [1, 0, -1, 2], [2, 2, 2, -4]],
        }
    for alg in ("affine_eq", "affine_geq", "affine_leq"):
        for n, vs in vecs.items():
            for v in vs:
                add(alg, n, list(v) + [S], D=2 if n >= 3 else 3)
    # alldifferent
    for n in (1, 2, 3):
        add("alldifferent", n, [], D=3 if n == 3 else 2)
    if not q:
        add("alldifferent", 4, [], D=3, stable_ties=True, only=["C05", "C06", "C16", "C04"])
    # count_eq: a symbolic
    for n in (2, 3) if q else (2, 3, 4):
        add("count_eq", n, [S], D=2)
    for n in (1, 2):
        add("dummy", n, [], D=1)
    # element_iv: list entries symbolic (repeated entries possible)
    for ln in (1, 2, 3) if q else (1, 2, 3, 4):
        add("element_iv", 2, [S] * ln, D=2 if ln < 4 else 3)
    for n in (2, 3, 4) if q else (2, 3, 4, 5):
        add("element_lic", n, [S], D=2)
    for n in (3, 4, 5) if q else (3, 4, 5, 6):
        add("element_liv", n, [], D=2 if n < 5 else 1)
    for n in (1, 2, 3) if q else (1, 2, 3, 4):
        add("exactly_eq", n, [S, sr(-1, n + 1)], D=2)
        add("exactly_true", n, [sr(-1, n + 1)], D=1, base=0)
    # gcc: v0 = 0, capacities symbolic in [0, n+1] (incl. sum(upper) < n, lower > upper, zero capacities)
    gcc_nm = [(1, 1), (1, 2), (2, 1), (2, 2), (2, 3)] if q else [(1, 1), (1, 2), (2, 1), (2, 2), (2, 3), (3, 2)]
    for n, m in gcc_nm:
        kw = dict(only=["C04", "C05"]) if (q and (n, m) == (2, 3)) else {}  # 6 k paths: where it has shown something (R4-C04, KF-gcc-zero-capacity-C05)
        add("gcc", n, [0] + [sr(0, n + 1)] * (2 * m), D=m - 1, base=0, **kw)
    fixed = [
        (3, [0, 0, 0, 0, 1, 1, 1]),
        (3, [0, 0, 1, 0, 3, 1, 1]),
        (3, [0, 1, 0, 1, 2, 1, 2]),
        (3, [0, 0, 0, 0, 2, 2, 2]),
        (3, [0, 0, 0, 0, 1, 1, 0]),
        (3, [0, 0, 0, 0, 1, 0, 1]),
        (3, [0, 2, 1, 0, 1, 1, 1]),
    ]
    if not q:
        fixed += [(4, [0, 1, 0, 1, 2, 2, 2]), (4, [0, 0, 0, 0, 2, 1, 2]), (4, [0, 0, 2, 0, 1, 3, 0]), (3, [5, 0, 1, 1, 1, 2, 2])]
    for n, ps in fixed:
        m = (len(ps) - 1) // 2
        add("gcc", n, ps, D=m - 1, base=ps[0])
    for n in (2, 4, 6) if q else (2, 4, 6, 8):
        add("lexicographic_leq", n, [], D=2 if n <= 4 else 1)
    for alg in ("max_eq", "max_leq", "min_eq", "min_geq"):
        for n in (2, 3, 4) if q else (2, 3, 4, 5):
            add(alg, n, [], D=2 if n < 5 else 1)
    for alg in ("no_sub_cycle", "scc"):
        for n in (2, 3) if q else (2, 3, 4):
            add(alg, n, [], D=n - 1, base=0)
    # successor constraints at larger arities: the instantiated arcs are concrete (chains of a concrete partial permutation),
    # the remaining variables (chain ends, isolated vertices) have symbolic bounds of width <= 1 (quick) / <= 2
    for alg in ("no_sub_cycle", "scc"):
        for n, pin in circuit_shapes(q):
            free = n - len(pin)
            props = ["C05", "C06", "C16", "C04"]
            if q:
                # quick tier, sized by measured path counts: scc forks 15 ways per free vertex (50 k paths at n = 8 with four of them),
                # so scc keeps the shapes with <= 3 free vertices and n <= 6 (+ the two long chains of n = 8); the four-chain shape of
                # n = 8 (10 k paths for no_sub_cycle) is asked by C06 only, the n = 7, 8 random shapes by C05 / C06 only
                if n > 8 or (alg == "scc" and (free > 3 or (n > 6 and free > 2))):
                    continue
                if free > 3:
                    props = ["C06"]
                elif n > 6 and free > 2:
                    props = ["C05", "C06"]
            elif free > 3 and alg == "scc" and n > 8:
                continue  # beyond the thorough budget (measured: 50 k paths at n = 8 with four free vertices)
            add(alg, n, [], D=n - 1, base=0, pin=pin, width=1 if q or free > 2 else 2, only=props)
    # relation: rows symbolic (repeated rows possible)
    rel = [(1, 1), (1, 2), (1, 3), (2, 1), (2, 2), (3, 2)] if q else [(1, 1), (1, 3), (2, 1), (2, 2), (2, 3), (3, 2), (3, 3), (2, 4)]
    for ar, rows in rel:
        add("relation", ar, [S] * (ar * rows), D=2)
    return C


def circuit_shapes(q):
    """(n, {vertex: successor}) : concrete partial permutations made of disjoint chains; the other vertices stay symbolic"""
    import random

    shapes = []
    # k chains of equal length laid out so that the chain ends sit next to each other (i + k -> i)
    for n, k in ((6, 3), (8, 4), (8, 2), (9, 3)) if q else ((6, 3), (6, 2), (8, 4), (8, 2), (9, 3), (10, 5), (10, 2)):
        pin = {}
        for v in range(k, n):
            pin[v] = v - k
        shapes.append((n, pin))
    # seeded random shapes: a random circuit with f arcs removed
    rnd = random.Random(4)
    for n, f in ((5, 2), (6, 3), (7, 3), (8, 3)) if q else ((5, 2), (6, 3), (7, 3), (7, 4), (8, 3), (8, 4), (9, 4), (10, 4)):
        for _ in range(1 if q else 2):
            order = list(range(n))
            rnd.shuffle(order)
            succ = {order[i]: order[(i + 1) % n] for i in range(n)}
            for v in rnd.sample(range(n), f):
                del succ[v]
            shapes.append((n, succ))
    return shapes


def loop_budget(cfg):
    n = cfg["n"]
    m = (len(cfg["params"]) - 1) // 2 if cfg["alg"] == "gcc" else 0
    return 50 * (n + m + 6) ** 2
