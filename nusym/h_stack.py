"""Stack-capacity harnesses (C19, also C16): the guard of the search step, the shaving step and the constructor.

step:    one iteration of the real solve_one() from an ARBITRARY stack state (top symbolic in [0,H)), the consistency
         algorithm stubbed to answer UNBOUND once (then the run is cut): every path must either raise an exception
         raised by the source or discharge all index / dtype obligations of the push (the compiled code has no bounds check).
shave:   the real shave_bound() (bound consistency stubbed by its contract) from any level solve_one can call it at.
ctor:    the real BacktrackSolver constructor with a given height: refuses, or the pointer type can represent H-1.
chain:   end to end: free 0/1 variables with symbolic bounds (so the needed depth is symbolic) under a given height.
"""
import z3

from . import core
from .core import ENGINE, Cut, Obligation, SArray, SymInt, as_z3int, as_z3bool, DType
from .explore import register
from .relations import AND, OR


def _ns():
    import nucs.heuristics.heuristics as H
    import nucs.solvers.backtrack_solver as BS
    import nucs.solvers.consistency_algorithms as CA
    import nucs.solvers.shaving_consistency_algorithm as SH
    from nucs.problems.problem import Problem

    return H, BS, CA, SH, Problem


def _record(E, prop, kind, site, o, **kw):
    v = dict(prop=prop, kind=kind, site=site, cls=None, harness="stack", detail=getattr(o, "detail", str(o)))
    v.update(kw)
    E.acc.violation(v)


@register("stack_step")
def make_step(height, heur, ND=2, prop="C19"):
    def body(E):
        H, BS, CA, SH, Problem = _ns()
        i32, u16, u8, b8, i64 = DType("int32"), DType("uint16"), DType("uint8"), DType("bool"), DType("int64")
        NP = 1
        if height <= 16:
            topz = z3.Int("top")
            E.solver.add(topz >= 0, topz < height)
            top = E.concretize(topz)
            stack = core.empty((height, ND, 2), i32)
            ne = core.empty((height, NP), b8)
            du = core.empty((height, 2), u16)
        else:
            # tall stacks: the levels around both ends and the middle; only the current row is arbitrary
            tops = sorted(set(t for t in [0, 1, height // 2, height - 5, height - 4, height - 3, height - 2, height - 1] if 0 <= t < height))
            top = tops[E.choose(len(tops), "top")]
            stack = core.zeros((height, ND, 2), i32)
            ne = core.zeros((height, NP), b8)
            du = core.zeros((height, 2), u16)
            for d_ in range(ND):
                for c_ in (0, 1):
                    h_ = E.new_int()
                    E.solver.add(h_.e >= -(1 << 31), h_.e < (1 << 31))
                    stack[top, d_, c_] = h_
            ne[top, 0] = E.new_bool()
        st = core.array([top], dtype=u8)
        # at least one decision domain is not instantiated (otherwise the step is not a choice)
        a, b = as_z3int(stack[top, 0, 0]), as_z3int(stack[top, 0, 1])
        E.solver.add(a < b, a >= 0, b <= 3)
        c, d = as_z3int(stack[top, 1, 0]), as_z3int(stack[top, 1, 1])
        E.solver.add(c == d)
        calls = [0]

        def alg(*args):
            calls[0] += 1
            if calls[0] == 2:
                raise Cut()
            return 1  # PROBLEM_UNBOUND

        CA.CONSISTENCY_ALG_FCTS.append(alg)
        alg_idx = len(CA.CONSISTENCY_ALG_FCTS) - 1
        params = core.array([[1, 1, 1, 1]] * ND, dtype=i64)
        stats = core.zeros(13, i64)
        trig = core.zeros(NP, b8)
        triggers = core.array([[7]] * ND, dtype=u8)
        empty = core.empty(0)
        outcome = None
        try:
            BS.solve_one(
                stats, core.array([0], dtype=u8), core.zeros((1, 2), u16), core.zeros((1, 2), u16), core.array(list(range(ND)), dtype=u16), core.zeros(ND, i32),
                core.zeros(0, u16), core.zeros((0, 1), i32), core.zeros(0, i32), triggers, stack, ne, du, st, trig, alg_idx,
                core.array(list(range(ND)), dtype=u16), H.VAR_HEURISTIC_FIRST_NOT_INSTANTIATED, params, getattr(H, "DOM_HEURISTIC_" + heur.upper()), params,
                empty, empty, empty, empty,
            )
            outcome = "returned"
        except Cut:
            outcome = "pushed:%d" % (int(st[0]) - top)
            if int(st[0]) > height - 2:
                # the consistency algorithm is now entered at a level from which the shaving probe cannot push
                _record(E, prop, "no-room-left-for-the-shaving-probe", f"solve_one/{heur}", "after the choice the top is %d, the last level is %d" % (int(st[0]), height - 1), height=height, top=top, heuristic=heur, shaving=True, nvars=height)
        except Obligation as o:
            outcome = "obligation:" + o.kind
            _record(E, prop, "stack-" + o.kind, f"solve_one/{heur}", o, height=height, top=top, heuristic=heur)
        except Exception as ex:  # noqa: an exception raised by the source = the capacity problem is reported
            outcome = "refused:" + type(ex).__name__
        finally:
            CA.CONSISTENCY_ALG_FCTS.pop()
        E.acc.count(outcome)
        E.acc.sample(dict(height=height, top=top, heuristic=heur, outcome=outcome))

    return body


@register("stack_shave")
def make_shave(height, prop="C19"):
    def body(E):
        H, BS, CA, SH, Problem = _ns()
        i32, u16, u8, b8, i64 = DType("int32"), DType("uint16"), DType("uint8"), DType("bool"), DType("int64")
        ND, NP = 2, 1
        # levels at which solve_one can invoke a consistency algorithm: established by the step harness (top' <= H-2)
        if height <= 16:
            topz = z3.Int("top")
            E.solver.add(topz >= 0, topz <= height - 2)
            top = E.concretize(topz)
            stack = core.empty((height, ND, 2), i32)
            ne = core.empty((height, NP), b8)
            du = core.empty((height, 2), u16)
        else:
            tops = sorted(set(t for t in [0, 1, height // 2, height - 4, height - 3, height - 2] if 0 <= t <= height - 2))
            top = tops[E.choose(len(tops), "top")]
            stack = core.zeros((height, ND, 2), i32)
            ne = core.zeros((height, NP), b8)
            du = core.zeros((height, 2), u16)
            for d_ in range(ND):
                for c_ in (0, 1):
                    h_ = E.new_int()
                    E.solver.add(h_.e >= -(1 << 31), h_.e < (1 << 31))
                    stack[top, d_, c_] = h_
            ne[top, 0] = E.new_bool()
        st = core.array([top], dtype=u8)
        a, b = as_z3int(stack[top, 0, 0]), as_z3int(stack[top, 0, 1])
        E.solver.add(a < b, a >= 0, b <= 3)
        bound = E.choose(2, "bound")
        real_bc = SH.bound_consistency_algorithm
        SH.bound_consistency_algorithm = lambda *args: E.choose(3, "bc-status")  # contract stub: any status, no write
        try:
            SH.shave_bound(bound, 0, core.zeros(13, i64), None, None, None, None, None, None, None, None, core.array([[7]] * ND, dtype=u8), stack, ne, du, st, core.zeros(NP, b8), None, None)
            outcome = "ok" if int(st[0]) == top else "height-changed"
            if outcome != "ok":
                _record(E, "C10", "stack-height-changed", "shave_bound", "top %d -> %d" % (top, int(st[0])), height=height, top=top)
        except Obligation as o:
            outcome = "obligation:" + o.kind
            _record(E, prop, "stack-" + o.kind, "shave_bound", o, height=height, top=top)
        finally:
            SH.bound_consistency_algorithm = real_bc
        E.acc.count(outcome)

    return body


@register("stack_ctor")
def make_ctor(height, prop="C19", cons=None, heur=None):
    """the constructor under every consistency algorithm / value heuristic that may size the stacks differently"""

    def body(E):
        H, BS, CA, SH, Problem = _ns()
        kw = {}
        if cons == "shaving":
            kw["consistency_alg_idx"] = CA.CONSISTENCY_ALG_SHAVING
        if heur:
            kw["dom_heuristic_idx"] = getattr(H, "DOM_HEURISTIC_" + heur.upper())
        try:
            s = BS.BacktrackSolver(Problem([(0, 1)]), stack_max_height=height, **kw)
        except Obligation as o:
            E.acc.count("obligation:" + o.kind)
            _record(E, prop, "ctor-" + o.kind, "BacktrackSolver.__init__", o, height=height)
            return
        except Exception as ex:  # noqa
            E.acc.count("refused:" + type(ex).__name__)
            return
        try:
            levels = len(s.shr_domains_stack)
            if not (len(s.not_entailed_propagators_stack) == len(s.dom_update_stack) == levels):
                _record(E, prop, "stacks-of-different-heights", "BacktrackSolver.__init__", "the three stacks differ in height", height=height)
            s.stacks_top[0] = levels - 1  # the highest ALLOCATED level must be representable by the pointer's dtype
            E.acc.count("accepted")
        except Obligation as o:
            E.acc.count("obligation:" + o.kind)
            _record(E, prop, "pointer-cannot-represent-top-level", "BacktrackSolver.__init__", o, height=height)

    return body


@register("stack_chain")
def make_chain(height, nvars, heur, shaving=False, prop="C19", fixed_width=None):
    """nvars unconstrained variables, each [a_i, b_i] with 0 <= b_i - a_i <= 1 symbolic: needed depth is symbolic"""

    def body(E):
        H, BS, CA, SH, Problem = _ns()
        lo = [z3.Int(f"lo{i}") for i in range(nvars)]
        w = [z3.Int(f"w{i}") for i in range(nvars)]
        for i in range(nvars if fixed_width is None else 0):
            # mid_value / min_cost push two levels only for an interior value: width 2 (three values)
            E.solver.add(lo[i] >= -5, lo[i] <= 5, w[i] >= 0, w[i] <= (2 if heur in ("mid_value", "min_cost") else 1))
            if fixed_width is not None:  # tall stacks: one concrete chain (a single path)
                E.solver.add(lo[i] == 0, w[i] == fixed_width)
            if heur == "min_cost":  # contract: the cost table covers the values {0, 1, 2}; cheapest value interior
                E.solver.add(lo[i] == 0)
        if fixed_width is not None:
            pb = Problem([(0, fixed_width)] * nvars)  # tall stacks: one concrete chain
        else:
            pb = Problem([(SymInt(lo[i]), SymInt(lo[i] + w[i])) for i in range(nvars)])
        sols = []
        outcome = None
        try:
            s = BS.BacktrackSolver(pb, consistency_alg_idx=CA.CONSISTENCY_ALG_SHAVING if shaving else CA.CONSISTENCY_ALG_BC, dom_heuristic_idx=getattr(H, "DOM_HEURISTIC_" + heur.upper()), dom_heuristic_params=[[2, 1, 2]] * nvars if heur == "min_cost" else [[]], stack_max_height=height)
            for x in s.solve():
                sols.append(x.tolist())
                if fixed_width is not None:
                    break
            outcome = "enumerated" if fixed_width is None else "first-solution"
        except Obligation as o:
            outcome = "obligation:" + o.kind
            m = o.model
            _record(E, prop, "stack-" + o.kind, f"BacktrackSolver.solve/{heur}", o, height=height, nvars=nvars, heuristic=heur, shaving=shaving, widths=[E.ev(m, x) for x in w] if m is not None else None)
        except Exception as ex:  # noqa
            outcome = "refused:" + type(ex).__name__
        E.acc.count(outcome)
        if prop == "C15" and core.FLAGS.hazards:
            m = (E.model() if E.check() else None) if fixed_width is None else None
            E.acc.count("mode-hazard-paths")
            E.acc.violation(dict(prop="C15", kind="mode-hazard", site="hazard:" + str(core.FLAGS.hazards[0].get("where"))[:80], cls=None, harness="stack", benign_if_not_reproduced=True, modes=["jit"], hazard=core.FLAGS.hazards[0], hazards=len(core.FLAGS.hazards), height=height, nvars=nvars, heuristic=heur, shaving=shaving, widths=([fixed_width] * nvars if fixed_width is not None else ([E.ev(m, x) for x in w] if m is not None else None))))
        if outcome == "enumerated":
            # exactly the cartesian product, each once
            t = [z3.Int(f"t{i}") for i in range(nvars)]
            inb = AND([z3.And(lo[i] <= t[i], t[i] <= lo[i] + w[i]) for i in range(nvars)])
            notin = AND([OR([as_z3int(sv[i]) != t[i] for i in range(nvars)]) for sv in sols])
            dup = OR([AND([as_z3int(sols[p][i]) == as_z3int(sols[q][i]) for i in range(nvars)]) for p in range(len(sols)) for q in range(p + 1, len(sols))])
            outside = OR([z3.Not(AND([z3.And(lo[i] <= as_z3int(sv[i]), as_z3int(sv[i]) <= lo[i] + w[i]) for i in range(nvars)])) for sv in sols])
            if E.query(z3.Or(z3.And(inb, notin), dup, outside)):
                m = E.model()
                _record(E, prop, "wrong-duplicated-or-missing-solutions", f"BacktrackSolver.solve/{heur}", "enumeration differs from the cartesian product", height=height, nvars=nvars, heuristic=heur, shaving=shaving, widths=[E.ev(m, x) for x in w])

    return body
