"""nusym core: symbolic executor for the real nucs sources (z3 terms in place of ints, fake numpy/numba).

- SymInt / SymBool wrap z3 terms; Python control flow on them forks paths.
- Explorer: stateless DFS by re-execution with a decision prefix.
- fake `numpy` (SArray) and fake `numba` modules are injected so that the real
  nucs modules are imported unmodified (AST loop guards added) and run on symbolic values.
"""
import ast
import importlib
import importlib.abc
import importlib.machinery
import itertools
import sys
import time
import types

import z3

# --------------------------------------------------------------------------- engine


class PathAbort(BaseException):
    """base of the exceptions that steer the path explorer (never caught by `except Exception`)"""


class Infeasible(PathAbort):
    pass


class BudgetExceeded(PathAbort):
    """an unwinding assertion failed: a loop budget derived from the documented complexity was exceeded"""

    def __init__(self, what="loop"):
        super().__init__(what)
        self.what = what


class Cut(PathAbort):
    pass


class Hang(PathAbort):
    """a stubbed blocking primitive would block forever"""


class Inconclusive(BaseException):
    """solver said unknown / harness cannot decide (BaseException: must never be swallowed by an `except Exception`)"""


class Obligation(Exception):
    """raised when a side obligation (index in bounds, dtype fit) can be violated"""

    def __init__(self, kind, detail, model):
        super().__init__(kind, detail)
        self.kind, self.detail, self.model = kind, detail, model


class Acc:
    """per-task accumulator, merged by the parent"""

    CAP_VIOL = 40
    CAP_SAMPLES = 6
    CAP_VALID = 60

    def __init__(self):
        self.counts = {}
        self.violations = []
        self.samples = []
        self.validate = []
        self.notes = {}

    def count(self, key, n=1):
        self.counts[key] = self.counts.get(key, 0) + n

    def violation(self, v):
        self.count("violation:" + v.get("kind", "?"))
        if len(self.violations) < self.CAP_VIOL:
            self.violations.append(v)

    def sample(self, s):
        if len(self.samples) < self.CAP_SAMPLES:
            self.samples.append(s)

    def valid(self, s):
        if len(self.validate) < self.CAP_VALID:
            self.validate.append(s)

    def merge(self, o):
        for k, v in o.counts.items():
            self.counts[k] = self.counts.get(k, 0) + v
        for v in o.violations:
            if len(self.violations) < 4 * self.CAP_VIOL:
                self.violations.append(v)
        for s in o.samples:
            if len(self.samples) < 2 * self.CAP_SAMPLES:
                self.samples.append(s)
        for s in o.validate:
            if len(self.validate) < 20 * self.CAP_VALID:
                self.validate.append(s)
        for k, v in o.notes.items():
            self.notes.setdefault(k, v)


def new_stats():
    return dict(paths=0, checks=0, solver_s=0.0, forks=0, loop_iters=0, prop_queries=0, infeasible=0, budget=0, cut=0, hang=0, xchecked=0, xcheck_agree=0)


class Engine:
    def __init__(self):
        self.solver = None
        self.prefix = []
        self.pos = 0
        self.log = []
        self.pending = []
        self.stats = new_stats()
        self.loop_budget = 2000
        self.loop_count = 0
        self.fresh = 0
        self.acc = Acc()
        self.solver_timeout_ms = 60000

    # ---------------------------------------------------------------- solver
    def check(self, *assumptions):
        t = time.time()
        r = self.solver.check(*assumptions)
        self.stats["solver_s"] += time.time() - t
        self.stats["checks"] += 1
        if r == z3.unknown:
            raise Inconclusive("solver unknown: " + str(self.solver.reason_unknown()))
        return r == z3.sat

    def query(self, *assumptions):
        """a property query (counted separately from branch-feasibility queries)"""
        self.stats["prop_queries"] += 1
        r = self.check(*assumptions)
        if XCHECK_EVERY and self.stats["prop_queries"] % XCHECK_EVERY == 1 and self.stats.get("xchecked", 0) < 1:
            self.cross_check(assumptions, r)
        return r

    def cross_check(self, assumptions, r):
        """re-decides the same query with two other solver builds (/usr/bin/z3 4.8.12, cvc5 1.0.3); a disagreement is a
        harness error (DESIGN 1.6); unknown / time-out of the other solver is ignored"""
        import os
        import subprocess
        import tempfile

        s2 = z3.Solver()
        s2.add(self.solver.assertions())
        s2.add(*assumptions)
        body = s2.to_smt2()
        want = "sat" if r else "unsat"
        with tempfile.NamedTemporaryFile("w", suffix=".smt2", delete=False, dir=os.environ.get("NUSYM_TMP", None)) as f:
            f.write("(set-logic ALL)\n" + body)
            path = f.name
        self.stats["xchecked"] = self.stats.get("xchecked", 0) + 1
        try:
            for cmd in (["/usr/bin/z3", "-T:15", path], ["cvc5", "--tlimit=15000", path]):
                try:
                    out = subprocess.run(cmd, capture_output=True, text=True, timeout=25).stdout.strip().splitlines()
                except (subprocess.TimeoutExpired, OSError):
                    continue
                ans = out[0].strip() if out else ""
                if ans in ("sat", "unsat"):
                    self.stats["xcheck_agree"] = self.stats.get("xcheck_agree", 0) + (ans == want)
                    if ans != want:
                        raise Inconclusive(f"cross-solver disagreement: {cmd[0]} says {ans}, z3 python API says {want} ({path})")
        finally:
            if os.path.exists(path):
                try:
                    os.unlink(path)
                except OSError:
                    pass

    def model(self):
        return self.solver.model()

    def ev(self, m, x):
        """evaluate a python/sym value under model m to a python int/bool"""
        if isinstance(x, bool):
            return x
        if isinstance(x, int):
            return x
        if isinstance(x, SymInt):
            x = x.e
        elif isinstance(x, SymBool):
            x = x.e
        v = m.eval(x, model_completion=True)
        if z3.is_int_value(v):
            return v.as_long()
        if z3.is_true(v):
            return True
        if z3.is_false(v):
            return False
        raise Inconclusive(f"cannot evaluate {x} -> {v}")

    def assume(self, cond):
        cond = as_z3bool(cond)
        self.solver.add(cond)

    def assume_checked(self, cond):
        cond = as_z3bool(cond)
        self.solver.add(cond)
        if not self.check():
            raise Infeasible()

    # ---------------------------------------------------------------- forking
    def branch(self, cond):
        """cond: z3 BoolRef. returns python bool, forking."""
        cond = z3.simplify(cond)
        if z3.is_true(cond):
            return True
        if z3.is_false(cond):
            return False
        if self.pos < len(self.prefix):
            d = self.prefix[self.pos]
            self.pos += 1
            self.log.append(d)
            self.solver.add(cond if d else z3.Not(cond))
            return d
        can_t = self.check(cond)
        if can_t:
            can_f = self.check(z3.Not(cond))
            if can_f:
                self.stats["forks"] += 1
                self.pending.append(self.log + [False])
            d = True
        else:
            # PC is satisfiable by invariant, hence the negation is
            d = False
        self.pos += 1
        self.prefix.append(d)
        self.log.append(d)
        self.solver.add(cond if d else z3.Not(cond))
        return d

    def choose(self, n, tag="choice"):
        """nondeterministic choice of an integer in range(n) (environment / scheduler / tie order)"""
        if n <= 1:
            return 0
        if self.pos < len(self.prefix):
            d = self.prefix[self.pos]
            self.pos += 1
            self.log.append(d)
            return d[1]
        for alt in range(n - 1, 0, -1):
            self.pending.append(self.log + [("ch", alt)])
        self.stats["forks"] += n - 1
        d = ("ch", 0)
        self.pos += 1
        self.prefix.append(d)
        self.log.append(d)
        return 0

    def concretize(self, e):
        """e: z3 int expr -> python int, forking over feasible values."""
        e = z3.simplify(e)
        if z3.is_int_value(e):
            return e.as_long()
        while True:
            if self.pos < len(self.prefix):
                d = self.prefix[self.pos]
                self.pos += 1
                self.log.append(d)
                kind, v = d
                if kind == "eq":
                    self.solver.add(e == v)
                    return v
                self.solver.add(e != v)
                continue
            if not self.check():
                raise Infeasible()
            v = self.solver.model().eval(e, model_completion=True).as_long()
            if self.check(e != v):
                self.stats["forks"] += 1
                self.pending.append(self.log + [("ne", v)])
            d = ("eq", v)
            self.pos += 1
            self.prefix.append(d)
            self.log.append(d)
            self.solver.add(e == v)
            return v

    def pc_mentions_havoc(self):
        """does the path condition mention a cell of an np.empty array (control flow decided by uninitialised memory)?"""
        if not HAVOC or self.solver is None:
            return []
        names = {str(h.e) for h in HAVOC}
        found = set()
        seen = set()
        stack = [a for a in self.solver.assertions() if a.get_id() not in HAVOC_RANGE_IDS]
        while stack:
            t = stack.pop()
            if t.get_id() in seen:
                continue
            seen.add(t.get_id())
            if z3.is_const(t) and t.decl().kind() == z3.Z3_OP_UNINTERPRETED:
                if str(t) in names:
                    found.add(str(t))
            else:
                stack.extend(t.children())
        return sorted(found)

    def loop_guard(self):
        self.loop_count += 1
        self.stats["loop_iters"] += 1
        if self.loop_count > self.loop_budget:
            raise BudgetExceeded("while-loop iterations > %d" % self.loop_budget)

    def new_int(self, name=None):
        self.fresh += 1
        return SymInt(z3.Int(name or f"h{self.fresh}"))

    def new_bool(self, name=None):
        self.fresh += 1
        return SymBool(z3.Bool(name or f"hb{self.fresh}"))

    # ---------------------------------------------------------------- exploration
    def _start_path(self, prefix):
        self.prefix = list(prefix)
        self.pos = 0
        self.log = []
        self.loop_count = 0
        self.fresh = 0
        self.solver = z3.Solver()
        self.solver.set("timeout", self.solver_timeout_ms)
        HAVOC.clear()
        HAVOC_RANGE_IDS.clear()
        del FLAGS.hazards[:]

    def run_paths(self, body, prefixes, max_paths=10**9, deadline=None, on_abort=None):
        """explores the subtrees rooted at `prefixes` (DFS). returns leftover prefixes (unexplored) when the budget is hit.
        body(E) -> None; it records into E.acc. PathAbort subclasses end a path."""
        self.pending = [list(p) for p in prefixes]
        done = 0
        while self.pending:
            if done >= max_paths or (deadline and time.time() > deadline):
                break
            self._start_path(self.pending.pop())
            done += 1
            self.stats["paths"] += 1
            try:
                body(self)
            except Infeasible:
                self.stats["paths"] -= 1
                self.stats["infeasible"] += 1
            except BudgetExceeded as b:
                self.stats["budget"] += 1
                if on_abort:
                    on_abort(self, "budget", b)
                else:
                    self.acc.count("abort:budget")
            except Cut as c:
                self.stats["cut"] += 1
                if on_abort:
                    on_abort(self, "cut", c)
            except Hang as h:
                self.stats["hang"] += 1
                if on_abort:
                    on_abort(self, "hang", h)
                else:
                    self.acc.count("abort:hang")
        left = self.pending
        self.pending = []
        return left


import os as _os

XCHECK_EVERY = int(_os.environ.get("NUSYM_XCHECK", "300"))

ENGINE = Engine()


def as_z3int(x):
    if isinstance(x, SymInt):
        return x.e
    if isinstance(x, SymBool):
        return z3.If(x.e, 1, 0)
    if isinstance(x, bool):
        return z3.IntVal(int(x))
    if isinstance(x, int):
        return z3.IntVal(x)
    raise TypeError(type(x))


def as_z3bool(x):
    if isinstance(x, SymBool):
        return x.e
    if isinstance(x, bool):
        return z3.BoolVal(x)
    if isinstance(x, SymInt):
        return x.e != 0
    if isinstance(x, int):
        return z3.BoolVal(x != 0)
    if z3.is_bool(x):
        return x
    raise TypeError(type(x))


def mk_int(e):
    e = z3.simplify(e)
    if z3.is_int_value(e):
        return e.as_long()
    return SymInt(e)


def mk_bool(e):
    e = z3.simplify(e)
    if z3.is_true(e):
        return True
    if z3.is_false(e):
        return False
    return SymBool(e)


def py_floordiv(a, b):
    # Python floor division for z3 ints, b != 0 assumed (checked by caller)
    # z3 div: for b>0 floor; for b<0: a div b = -(a div -b) rounding such that remainder >=0
    # floor(a/b) with b<0 == floor((-a)/(-b))
    return z3.If(b > 0, a / b, (-a) / (-b))


class SymInt:
    __slots__ = ("e",)

    def __init__(self, e):
        self.e = e

    def _bin(self, o, f):
        if isinstance(o, (int, SymInt, SymBool)):
            return mk_int(f(self.e, as_z3int(o)))
        return NotImplemented

    def _rbin(self, o, f):
        if isinstance(o, (int, SymInt, SymBool)):
            return mk_int(f(as_z3int(o), self.e))
        return NotImplemented

    def __add__(self, o):
        return self._bin(o, lambda a, b: a + b)

    def __radd__(self, o):
        return self._rbin(o, lambda a, b: a + b)

    def __sub__(self, o):
        return self._bin(o, lambda a, b: a - b)

    def __rsub__(self, o):
        return self._rbin(o, lambda a, b: a - b)

    def __mul__(self, o):
        return self._bin(o, lambda a, b: a * b)

    def __rmul__(self, o):
        return self._rbin(o, lambda a, b: a * b)

    def __neg__(self):
        return mk_int(-self.e)

    def __pos__(self):
        return self

    def __floordiv__(self, o):
        if not isinstance(o, (int, SymInt)):
            return NotImplemented
        if not isinstance(o, int):
            if ENGINE.branch(o.e == 0):
                raise ZeroDivisionError()
        elif o == 0:
            raise ZeroDivisionError()
        return mk_int(py_floordiv(self.e, as_z3int(o)))

    def __rfloordiv__(self, o):
        if ENGINE.branch(self.e == 0):
            raise ZeroDivisionError()
        return mk_int(py_floordiv(as_z3int(o), self.e))

    def __mod__(self, o):
        q = self // o
        return self - q * o

    def __rmod__(self, o):
        q = o // self
        return o - q * self

    def _cmp(self, o, f):
        if isinstance(o, (int, SymInt, SymBool)):
            return mk_bool(f(self.e, as_z3int(o)))
        return NotImplemented

    def __lt__(self, o):
        return self._cmp(o, lambda a, b: a < b)

    def __le__(self, o):
        return self._cmp(o, lambda a, b: a <= b)

    def __gt__(self, o):
        return self._cmp(o, lambda a, b: a > b)

    def __ge__(self, o):
        return self._cmp(o, lambda a, b: a >= b)

    def __eq__(self, o):
        return self._cmp(o, lambda a, b: a == b)

    def __ne__(self, o):
        return self._cmp(o, lambda a, b: a != b)

    __hash__ = None

    def __bool__(self):
        return ENGINE.branch(self.e != 0)

    def __index__(self):
        return ENGINE.concretize(self.e)

    def __int__(self):
        return self  # keep symbolic: int(x) is identity on ints

    def __deepcopy__(self, memo):
        return self

    def __repr__(self):
        return f"SymInt({self.e})"

    # bitwise & and | (event masks): with a concrete other operand the symbolic one is concretised when it has few feasible
    # values; otherwise (a cell of an np.empty array, a symbolic mask) the operation is encoded on 16-bit vectors
    def _bits(self, o, op):
        if isinstance(o, SymInt) or HAVOC:
            a, b = z3.Int2BV(self.e, 16), z3.Int2BV(as_z3int(o), 16)
            return mk_int(z3.BV2Int(a & b if op == "&" else a | b))
        v = ENGINE.concretize(self.e)
        return v & int(o) if op == "&" else v | int(o)

    def __and__(self, o):
        return self._bits(o, "&")

    __rand__ = __and__

    def __or__(self, o):
        return self._bits(o, "|")

    __ror__ = __or__


class SymBool:
    __slots__ = ("e",)

    def __init__(self, e):
        self.e = e

    def __bool__(self):
        return ENGINE.branch(self.e)

    def __and__(self, o):
        return mk_bool(z3.And(self.e, as_z3bool(o)))

    __rand__ = __and__

    def __or__(self, o):
        return mk_bool(z3.Or(self.e, as_z3bool(o)))

    __ror__ = __or__

    def __invert__(self):
        return mk_bool(z3.Not(self.e))

    def __eq__(self, o):
        return mk_bool(self.e == as_z3bool(o))

    def __ne__(self, o):
        return mk_bool(self.e != as_z3bool(o))

    __hash__ = None

    def __add__(self, o):
        return mk_int(as_z3int(self) + as_z3int(o))

    __radd__ = __add__

    def __repr__(self):
        return f"SymBool({self.e})"


_range = range


def sym_range(*args):
    if all(isinstance(a, int) for a in args):
        return _range(*args)
    if len(args) == 1:
        start, stop, step = 0, args[0], 1
    elif len(args) == 2:
        start, stop, step = args[0], args[1], 1
    else:
        start, stop, step = args
    assert isinstance(step, int)
    empty = (as_z3int(stop) <= as_z3int(start)) if step > 0 else (as_z3int(stop) >= as_z3int(start))
    if ENGINE.branch(empty):
        return _range(0)
    if isinstance(start, SymInt):
        start = ENGINE.concretize(start.e)
    if isinstance(stop, SymInt):
        stop = ENGINE.concretize(stop.e)
    return _range(start, stop, step)


def sym_max(*args):
    if len(args) == 1:
        args = list(args[0])
    r = args[0]
    for a in args[1:]:
        if isinstance(r, int) and isinstance(a, int):
            r = max(r, a)
        else:
            zr, za = as_z3int(r), as_z3int(a)
            r = mk_int(z3.If(za > zr, za, zr))
    return r


def sym_min(*args):
    if len(args) == 1:
        args = list(args[0])
    r = args[0]
    for a in args[1:]:
        if isinstance(r, int) and isinstance(a, int):
            r = min(r, a)
        else:
            zr, za = as_z3int(r), as_z3int(a)
            r = mk_int(z3.If(za < zr, za, zr))
    return r


# --------------------------------------------------------------------------- fake numpy

DTYPE_RANGE = {
    "bool": (0, 1),
    "uint8": (0, 2**8 - 1),
    "uint16": (0, 2**16 - 1),
    "uint32": (0, 2**32 - 1),
    "int16": (-(2**15), 2**15 - 1),
    "int32": (-(2**31), 2**31 - 1),
    "int64": (-(2**63), 2**63 - 1),
    "float64": None,
}


class DType:
    def __init__(self, name):
        self.name = name

    def __call__(self, v=0):
        return v

    def __repr__(self):
        return self.name


def prod(xs):
    r = 1
    for x in xs:
        r *= x
    return r


def is_scalar(x):
    return isinstance(x, (int, bool, SymInt, SymBool, float))


class Flags:
    wrap_narrow = False  # symbolic stores into uint8/uint16/int16 arrays fork on 'fits' and wrap on the other branch
    check_dtype = False  # dtype-fit obligation on symbolic stores (concrete stores are always checked)
    track_dtypes = False  # concrete reads from typed arrays carry their dtype; out-of-type results are mode hazards
    hazards = []
    argsort_all_ties = True  # explore every permutation that sorts (False: stable order only)
    obligations = dict(index_checks=0, sym_index_checks=0, negative_index_uses=0, dtype_checks=0)


FLAGS = Flags()


def norm_index(i, n, what="index"):
    """returns concrete python index in [0,n) or raises Obligation (C16: the compiled code has no bounds check)"""
    ob = FLAGS.obligations
    if isinstance(i, SymInt):
        ob["sym_index_checks"] += 1
        bad = z3.Or(i.e < -n, i.e >= n)
        # fork: the out-of-range values end the path with the obligation; the in-range values (a negative one wraps, as in
        # NumPy and in the compiled code) carry on, so that what the code does with them is still judged by the other queries
        if ENGINE.branch(bad):
            ENGINE.check()
            raise Obligation("oob", f"{what} {i.e} not within [-{n},{n})", ENGINE.solver.model())
        i = ENGINE.concretize(i.e)
    elif isinstance(i, SymBool):
        i = int(bool(i))
    ob["index_checks"] += 1
    if i < -n or i >= n:
        if ENGINE.solver is not None and ENGINE.check():
            raise Obligation("oob", f"{what} {i} not within [-{n},{n})", ENGINE.solver.model())
        raise IndexError(i)
    i = int(i)  # an index is consumed here: the dtype it was read with plays no role in the stand-in's own arithmetic
    if i < 0:
        ob["negative_index_uses"] += 1
        i += n
    return i


_INT_BITS = {"uint8": (8, False), "uint16": (16, False), "uint32": (32, False), "int16": (16, True), "int32": (32, True), "int64": (64, True)}


def _promote(d1, d2):
    """NumPy's result type of two integer scalar types"""
    b1, s1 = _INT_BITS[d1]
    b2, s2 = _INT_BITS[d2]
    if s1 == s2:
        return d1 if b1 >= b2 else d2
    (bu, du), (bs, ds) = ((b1, d1), (b2, d2)) if not s1 else ((b2, d2), (b1, d1))
    if bs > bu:
        return ds
    nb = max(bu * 2, 16)
    return {16: "int16", 32: "int32", 64: "int64"}.get(nb, "int64")


class NPInt(int):
    """a CONCRETE integer read from a typed array, remembering its dtype (only when FLAGS.track_dtypes).  Arithmetic returns
    the exact mathematical result (what Numba's widening to 64 bits computes); when that result does not fit the type
    NumPy's scalar arithmetic would give it in interpreted mode (NEP 50: a Python int operand is weak), a *mode hazard* is
    recorded: the two execution modes compute different numbers from here on."""

    def __new__(cls, v, dtype):
        o = int.__new__(cls, v)
        o.dtype = dtype
        return o

    def _res(self, other, exact, op):
        if isinstance(other, NPInt):
            rd = _promote(self.dtype, other.dtype)
        elif isinstance(other, bool) or not isinstance(other, int):
            return exact
        else:
            rd = self.dtype
        lo, hi = DTYPE_RANGE[rd]
        if lo <= exact <= hi:
            return NPInt(exact, rd)
        FLAGS.hazards.append(dict(op=op, left=int(self), left_dtype=self.dtype, right=int(other), right_dtype=getattr(other, "dtype", "python int"), exact=exact, numpy_result_dtype=rd, where=_caller()))
        return exact

    def __add__(self, o):
        r = int.__add__(self, o)
        return r if r is NotImplemented else self._res(o, r, "+")

    __radd__ = __add__

    def __sub__(self, o):
        r = int.__sub__(self, o)
        return r if r is NotImplemented else self._res(o, r, "-")

    def __rsub__(self, o):
        r = int.__rsub__(self, o)
        return r if r is NotImplemented else self._res(o, r, "rsub")

    def __mul__(self, o):
        r = int.__mul__(self, o)
        return r if r is NotImplemented else self._res(o, r, "*")

    __rmul__ = __mul__

    def __neg__(self):
        return self._res(0, -int(self), "neg")

    def __deepcopy__(self, memo):
        return self

    def __reduce__(self):
        return (int, (int(self),))


def _caller():
    import traceback

    for fr in reversed(traceback.extract_stack(limit=12)):
        if "/nucs/" in fr.filename:
            return f"{fr.filename.split('/nucs/', 1)[1]}:{fr.lineno} {fr.line}"
    return "?"


class SArray:
    def __init__(self, data, shape, strides=None, offset=0, dtype="int64"):
        self.data = data
        self.shape = tuple(shape)
        if strides is None:
            strides, s = [], 1
            for d in reversed(self.shape):
                strides.insert(0, s)
                s *= d
        self.strides = tuple(strides)
        self.offset = offset
        self.dtype = dtype

    # -- helpers
    @property
    def ndim(self):
        return len(self.shape)

    @property
    def size(self):
        return prod(self.shape)

    def __len__(self):
        return self.shape[0]

    def _positions(self):
        for idx in itertools.product(*[range(d) for d in self.shape]):
            yield self.offset + sum(i * s for i, s in zip(idx, self.strides))

    def flat_values(self):
        return [self.data[p] for p in self._positions()]

    def copy(self):
        return SArray(self.flat_values(), self.shape, dtype=self.dtype)

    def tolist(self):
        if self.ndim == 1:
            return self.flat_values()
        return [self[i].tolist() for i in range(self.shape[0])]

    def _parse(self, key):
        if not isinstance(key, tuple):
            key = (key,)
        key = list(key) + [slice(None)] * (self.ndim - len(key))
        if len(key) > self.ndim:
            raise IndexError("too many indices")
        return key

    def __getitem__(self, key):
        if isinstance(key, SArray) and key.dtype == "bool" and key.ndim == 1:
            mask = [bool(b) for b in key.flat_values()]  # forks on symbolic
            rows = [i for i, b in enumerate(mask) if b]
            return self._take_axis0(rows)
        key = self._parse(key)
        adv = [k for k in key if isinstance(k, (list, SArray))]
        if adv:
            return self._advanced_get(key)
        offset, shape, strides = self.offset, [], []
        for k, n, s in zip(key, self.shape, self.strides):
            if isinstance(k, slice):
                start, stop, step = self._slice(k, n)
                m = max(0, (stop - start + (step - (1 if step > 0 else -1))) // step)
                offset += start * s
                shape.append(m)
                strides.append(s * step)
            else:
                offset += norm_index(k, n) * s
        if not shape:
            v = self.data[offset]
            if FLAGS.track_dtypes and type(v) is int and self.dtype in _INT_BITS and self.dtype != "int64":
                return NPInt(v, self.dtype)
            return v
        return SArray(self.data, shape, strides, offset, self.dtype)

    def _slice(self, k, n):
        def c(v):
            if isinstance(v, SymInt):
                return ENGINE.concretize(v.e)
            if type(v) is NPInt:
                return int(v)
            return v

        return slice(c(k.start), c(k.stop), c(k.step)).indices(n)

    def _take_axis0(self, rows):
        parts = [self[r] for r in rows]
        if self.ndim == 1:
            return SArray(list(parts), (len(rows),), dtype=self.dtype)
        vals = []
        for p in parts:
            vals.extend(p.flat_values())
        return SArray(vals, (len(rows),) + self.shape[1:], dtype=self.dtype)

    def _advanced_get(self, key):
        # supports exactly one advanced (1-D) index, others scalars or slices
        pos = [i for i, k in enumerate(key) if isinstance(k, (list, SArray))]
        assert len(pos) == 1, "prototype: one advanced index"
        p = pos[0]
        idxs = key[p].flat_values() if isinstance(key[p], SArray) else list(key[p])
        parts = []
        for ix in idxs:
            k2 = list(key)
            k2[p] = ix
            parts.append(self[tuple(k2)])
        if parts and isinstance(parts[0], SArray):
            vals = []
            for q in parts:
                vals.extend(q.flat_values())
            return SArray(vals, (len(idxs),) + parts[0].shape, dtype=self.dtype)
        return SArray(parts, (len(idxs),), dtype=self.dtype)

    def _store(self, pos, v):
        rng = DTYPE_RANGE.get(self.dtype)
        if rng is not None:
            lo, hi = rng
            if isinstance(v, SymBool):
                v = v if self.dtype == "bool" else mk_int(as_z3int(v))
            elif isinstance(v, SymInt):
                if self.dtype == "bool":
                    v = mk_bool(v.e != 0)
                elif FLAGS.wrap_narrow and self.dtype in ("uint8", "uint16", "int16"):
                    # a store that does not fit a narrow integer type wraps silently (NumPy scalar -> array element, and compiled
                    # code): the path FORKS, and on the branch where it does not fit the wrapped value is what the cell holds
                    FLAGS.obligations["dtype_checks"] += 1
                    if ENGINE.branch(z3.Or(v.e < lo, v.e > hi)):
                        FLAGS.obligations["narrow_wraps"] = FLAGS.obligations.get("narrow_wraps", 0) + 1
                        v = mk_int((v.e - lo) % (hi - lo + 1) + lo)
                elif FLAGS.check_dtype:
                    FLAGS.obligations["dtype_checks"] += 1
                    bad = z3.Or(v.e < lo, v.e > hi)
                    if ENGINE.check(bad):
                        raise Obligation("dtype", f"store {v.e} into {self.dtype}", ENGINE.solver.model())
            elif isinstance(v, (int, bool)):
                if type(v) is NPInt:
                    v = int(v)
                if self.dtype == "bool":
                    v = bool(v)
                elif not (lo <= v <= hi):
                    m = ENGINE.solver.model() if (ENGINE.solver is not None and ENGINE.check()) else None
                    raise Obligation("dtype", f"store {v} into {self.dtype}", m)
        self.data[pos] = v

    def __setitem__(self, key, value):
        if isinstance(key, SArray) and key.dtype == "bool":
            raise NotImplementedError
        key = self._parse(key)
        adv = [i for i, k in enumerate(key) if isinstance(k, (list, SArray))]
        if adv:
            # one 1-D index array (the only advanced form nucs uses for reading): assigned entry after entry, in index order, as
            # NumPy does for a[idx] = v; with a repeated index the last assignment wins
            if len(adv) != 1:
                raise NotImplementedError("advanced setitem with several index arrays")
            ai = adv[0]
            idx = key[ai]
            idx = idx.flat_values() if isinstance(idx, SArray) else list(idx)
            idx = [ENGINE.concretize(i.e) if isinstance(i, SymInt) else int(i) for i in idx]
            rest_shape = self[tuple(key[:ai]) + (0,) + tuple(key[ai + 1 :])] if idx else None
            rshape = tuple(rest_shape.shape) if isinstance(rest_shape, SArray) else ()
            full = (len(idx),) + rshape
            if isinstance(value, SArray):
                vals = broadcast_values(value, full)
            elif isinstance(value, (list, tuple)):
                vals = broadcast_values(array(value), full)
            else:
                vals = [value] * (len(idx) * prod(rshape))
            per = prod(rshape)
            for k, i in enumerate(idx):
                chunk = vals[k * per : (k + 1) * per]
                sub = tuple(key[:ai]) + (i,) + tuple(key[ai + 1 :])
                if rshape:
                    self[sub] = SArray(list(chunk), rshape, dtype=self.dtype)
                else:
                    self[sub] = chunk[0]
            return
        target = self.__getitem_view(key)
        if isinstance(target, int):  # scalar position
            self._store(target, value)
            return
        if isinstance(value, SArray):
            src = value
            # broadcast src to target.shape
            vals = broadcast_values(src, target.shape)
        elif isinstance(value, (list, tuple)):
            vals = broadcast_values(array(value), target.shape)
        else:
            vals = [value] * target.size
        for pos, v in zip(list(target._positions()), vals):
            self._store(pos, v)

    def __getitem_view(self, key):
        offset, shape, strides = self.offset, [], []
        for k, n, s in zip(key, self.shape, self.strides):
            if isinstance(k, slice):
                start, stop, step = self._slice(k, n)
                m = max(0, (stop - start + (step - (1 if step > 0 else -1))) // step)
                offset += start * s
                shape.append(m)
                strides.append(s * step)
            else:
                offset += norm_index(k, n) * s
        if not shape:
            return offset
        return SArray(self.data, shape, strides, offset, self.dtype)

    def __iter__(self):
        for i in range(self.shape[0]):
            yield self[i]

    # -- elementwise
    def _ew(self, o, f, dtype=None):
        if isinstance(o, SArray):
            shape = bshape(self.shape, o.shape)
            a = broadcast_values(self, shape)
            b = broadcast_values(o, shape)
        else:
            shape = self.shape
            a = self.flat_values()
            b = [o] * len(a)
        return SArray([f(x, y) for x, y in zip(a, b)], shape, dtype=dtype or self.dtype)

    def __add__(self, o):
        return self._ew(o, lambda x, y: x + y)

    __radd__ = __add__

    def __sub__(self, o):
        return self._ew(o, lambda x, y: x - y)

    def __or__(self, o):
        # element-wise | ; `a[idx] |= b` is evaluated by Python as a[idx] = a[idx] | b, i.e. with NumPy's buffered semantics
        # for fancy indices (a copy is read, the result is assigned back: for a repeated index the last assignment wins)
        if self.dtype == "bool":
            return self._ew(o, lambda x, y: (x | y) if isinstance(x, SymBool) else ((y | x) if isinstance(y, SymBool) else (bool(x) or bool(y))), "bool")
        return self._ew(o, lambda x, y: x | y)

    __ror__ = __or__

    def __ge__(self, o):
        return self._ew(o, lambda x, y: x >= y, "bool")

    def __le__(self, o):
        return self._ew(o, lambda x, y: x <= y, "bool")

    def __gt__(self, o):
        return self._ew(o, lambda x, y: x > y, "bool")

    def __lt__(self, o):
        return self._ew(o, lambda x, y: x < y, "bool")

    def __eq__(self, o):
        return self._ew(o, lambda x, y: x == y, "bool")

    def __ne__(self, o):
        return self._ew(o, lambda x, y: x != y, "bool")

    __hash__ = None

    def __and__(self, o):
        return self._ew(o, lambda x, y: x & y if isinstance(x, SymBool) else (y & x if isinstance(y, SymBool) else (x and y)), "bool")

    def min(self):
        return sym_min(self.flat_values())

    def max(self):
        return sym_max(self.flat_values())

    def any(self):
        return np_any(self)

    def all(self):
        return np_all(self)

    def sum(self):
        vals = self.flat_values()
        tot = 0
        for v in vals:
            tot = tot + (v if not isinstance(v, (bool, SymBool)) else (mk_int(z3.If(as_z3bool(v), 1, 0)) if isinstance(v, SymBool) else int(v)))
        return tot

    def fill(self, v):
        self[...] if False else None
        for p in list(self._positions()):
            self._store(p, v)

    def reshape(self, shape):
        if isinstance(shape, int):
            shape = (shape,)
        shape = list(shape)
        vals = self.flat_values()
        if -1 in shape:
            k = shape.index(-1)
            rest = prod(s for s in shape if s != -1)
            shape[k] = len(vals) // rest if rest else 0
        assert prod(shape) == len(vals)
        # contiguous arrays reshape as views in numpy; emulate view when self is contiguous
        if self.offset == 0 and len(self.data) == len(vals) and self.strides == SArray(None, self.shape).strides:
            return SArray(self.data, shape, dtype=self.dtype)
        return SArray(vals, shape, dtype=self.dtype)

    def __repr__(self):
        return f"SArray({self.tolist()}, dtype={self.dtype})"


def bshape(s1, s2):
    n = max(len(s1), len(s2))
    s1 = (1,) * (n - len(s1)) + tuple(s1)
    s2 = (1,) * (n - len(s2)) + tuple(s2)
    out = []
    for a, b in zip(s1, s2):
        if a == b or b == 1:
            out.append(a)
        elif a == 1:
            out.append(b)
        else:
            raise ValueError("broadcast")
    return tuple(out)


def broadcast_values(arr, shape):
    shape = tuple(shape)
    n = len(shape)
    ashape = (1,) * (n - arr.ndim) + arr.shape
    astrides = (0,) * (n - arr.ndim) + arr.strides
    for a, b in zip(ashape, shape):
        if a != b and a != 1:
            raise ValueError(f"cannot broadcast {arr.shape} to {shape}")
    vals = []
    for idx in itertools.product(*[range(d) for d in shape]):
        pos = arr.offset + sum((0 if ashape[k] == 1 else i) * astrides[k] for k, i in enumerate(idx))
        vals.append(arr.data[pos])
    return vals


def _dt(dtype):
    if dtype is None:
        return "int64"
    if isinstance(dtype, DType):
        return dtype.name
    if dtype is bool:
        return "bool"
    if dtype is int:
        return "int64"
    return str(dtype)


def _shape(shape):
    if isinstance(shape, (int, SymInt)):
        shape = (shape,)
    return tuple(ENGINE.concretize(s.e) if isinstance(s, SymInt) else int(s) for s in shape)


def zeros(shape, dtype=None):
    shape = _shape(shape)
    dt = _dt(dtype)
    return SArray([False if dt == "bool" else 0] * prod(shape), shape, dtype=dt)


def ones(shape, dtype=None):
    shape = _shape(shape)
    dt = _dt(dtype)
    return SArray([True if dt == "bool" else 1] * prod(shape), shape, dtype=dt)


def full(shape, fill_value=0, dtype=None):
    shape = _shape(shape)
    return SArray([fill_value] * prod(shape), shape, dtype=_dt(dtype))


HAVOC = []
HAVOC_RANGE_IDS = set()  # the dtype-range facts about havoc cells are not control dependence


def empty(shape, dtype=None):
    """uninitialised memory: every cell is a fresh unconstrained symbol (havoc)"""
    shape = _shape(shape)
    dt = _dt(dtype)
    vals = []
    for _ in range(prod(shape)):
        if ENGINE.solver is None:
            vals.append(0)
            continue
        h = ENGINE.new_int()
        HAVOC.append(h)
        rng = DTYPE_RANGE.get(dt)
        if dt == "bool":
            vals.append(mk_bool(h.e != 0))
        else:
            if rng:
                c1, c2 = h.e >= rng[0], h.e <= rng[1]
                HAVOC_RANGE_IDS.add(c1.get_id())
                HAVOC_RANGE_IDS.add(c2.get_id())
                ENGINE.solver.add(c1, c2)
            vals.append(h)
    return SArray(vals, shape, dtype=dt)


def array(obj, dtype=None):
    if isinstance(obj, SArray):
        r = obj.copy()
        if dtype is not None:
            r.dtype = _dt(dtype)
        return r

    def shape_of(o):
        if isinstance(o, SArray):
            return o.shape
        if isinstance(o, (list, tuple)):
            if len(o) == 0:
                return (0,)
            return (len(o),) + shape_of(o[0])
        return ()

    def flat(o):
        if isinstance(o, SArray):
            return o.flat_values()
        if isinstance(o, (list, tuple)):
            r = []
            for x in o:
                r.extend(flat(x))
            return r
        return [o]

    shape = shape_of(obj)
    r = SArray([0] * prod(shape), shape, dtype=_dt(dtype))
    for p, v in zip(list(r._positions()), flat(obj)):
        r._store(p, v)
    return r


def copy(a):
    return a.copy()


def np_max(a):
    return a.max()


def np_min(a):
    return a.min()


def np_any(a):
    vals = a.flat_values() if isinstance(a, SArray) else [a]
    return mk_bool(z3.Or([as_z3bool(v) for v in vals])) if vals else False


def np_all(a):
    vals = a.flat_values() if isinstance(a, SArray) else [a]
    return mk_bool(z3.And([as_z3bool(v) for v in vals])) if vals else True


def equal(a, b):
    return a == b


def argsort(a):
    """any permutation that sorts a (all tie orders explored)."""
    vals = a.flat_values()
    n = len(vals)
    remaining = list(range(n))
    out = []
    if not FLAGS.argsort_all_ties:
        # stable order: c precedes o iff v[c] < v[o] or (v[c] == v[o] and c < o)
        while remaining:
            chosen = None
            for c in remaining:
                conds = []
                for o in remaining:
                    if o != c:
                        zc, zo = as_z3int(vals[c]), as_z3int(vals[o])
                        conds.append(zc <= zo if c < o else zc < zo)
                cond = z3.And(conds) if conds else z3.BoolVal(True)
                if ENGINE.branch(cond):
                    chosen = c
                    break
            if chosen is None:
                raise Infeasible()
            out.append(chosen)
            remaining.remove(chosen)
        return SArray(out, (n,), dtype="int64")
    while remaining:
        # choose next minimal element: fork over candidates
        chosen = None
        for c in remaining:
            cond = z3.And([as_z3int(vals[c]) <= as_z3int(vals[o]) for o in remaining if o != c]) if len(remaining) > 1 else z3.BoolVal(True)
            if ENGINE.branch(cond):
                chosen = c
                break
        if chosen is None:
            raise Infeasible()
        out.append(chosen)
        remaining.remove(chosen)
    return SArray(out, (n,), dtype="int64")


def make_fake_numpy():
    m = types.ModuleType("numpy")
    for name in DTYPE_RANGE:
        setattr(m, name, DType(name))
    m.zeros, m.ones, m.full, m.empty, m.array, m.copy = zeros, ones, full, empty, array, copy
    m.max, m.min, m.any, m.all, m.equal, m.argsort = np_max, np_min, np_any, np_all, equal, argsort
    m.ndarray = SArray
    typing_mod = types.ModuleType("numpy.typing")
    typing_mod.NDArray = SArray
    m.typing = typing_mod
    _typing_mod = types.ModuleType("numpy._typing")
    _typing_mod.NDArray = SArray
    m._typing = _typing_mod
    return m, typing_mod, _typing_mod


def make_fake_numba():
    m = types.ModuleType("numba")

    def njit(*a, **k):
        if len(a) == 1 and callable(a[0]) and not k:
            return a[0]
        return lambda f: f

    class T:
        def __init__(self, n):
            self.n = n

        def __call__(self, *a, **k):
            return self

        def __getitem__(self, k):
            return self

    m.njit = njit
    for n in ["bool", "int32", "int64", "uint8", "uint16", "types"]:
        setattr(m, n, T(n))
    m.types = types.SimpleNamespace(FunctionType=lambda s: s)
    core = types.ModuleType("numba.core")
    core.cgutils = None
    exp = types.ModuleType("numba.experimental")
    ft = types.ModuleType("numba.experimental.function_type")
    ft._get_wrapper_address = lambda f, s: 0
    ext = types.ModuleType("numba.extending")
    ext.intrinsic = lambda f: f
    typed = types.ModuleType("numba.typed")
    typed.List = list
    return {
        "numba": m,
        "numba.core": core,
        "numba.experimental": exp,
        "numba.experimental.function_type": ft,
        "numba.extending": ext,
        "numba.typed": typed,
    }


# --------------------------------------------------------------------------- import hook


class _IntMeta(type):
    def __instancecheck__(cls, obj):
        return isinstance(obj, (int, SymInt))

    def __call__(cls, x=0):
        return x if isinstance(x, SymInt) else int(x)


class SInt(metaclass=_IntMeta):
    pass


class _BoolMeta(type):
    def __instancecheck__(cls, obj):
        return isinstance(obj, (bool, SymBool))

    def __call__(cls, x=False):
        return x if isinstance(x, SymBool) else bool(x)


class SBool(metaclass=_BoolMeta):
    pass


class LoopGuard(ast.NodeTransformer):
    def visit_While(self, node):
        self.generic_visit(node)
        guard = ast.Expr(ast.Call(ast.Name("__loop_guard__", ast.Load()), [], []))
        node.body.insert(0, guard)
        return node


class NucsLoader(importlib.abc.Loader):
    def __init__(self, path):
        self.path = path

    def create_module(self, spec):
        return None

    def exec_module(self, module):
        code = _CODE_CACHE.get(self.path)
        if code is None:
            src = open(self.path).read()
            tree = ast.parse(src, self.path)
            tree = LoopGuard().visit(tree)
            ast.fix_missing_locations(tree)
            code = compile(tree, self.path, "exec")
            _CODE_CACHE[self.path] = code
        module.__dict__["__loop_guard__"] = ENGINE.loop_guard
        module.__dict__["max"] = sym_max
        module.__dict__["range"] = sym_range
        module.__dict__["min"] = sym_min
        module.__dict__["int"] = SInt
        module.__dict__["bool"] = SBool
        exec(code, module.__dict__)


_CODE_CACHE = {}


def reload_nucs():
    """forget every loaded nucs module: the next import executes the module bodies again, so that all module-level state
    (registries, caches, counters) is that of a fresh interpreter.  The compiled code objects are reused."""
    for name in [n for n in sys.modules if n == "nucs" or n.startswith("nucs.")]:
        del sys.modules[name]


class NucsFinder(importlib.abc.MetaPathFinder):
    def __init__(self, root):
        self.root = root

    def find_spec(self, fullname, path, target=None):
        import os

        if not (fullname == "nucs" or fullname.startswith("nucs.")):
            return None
        rel = fullname.replace(".", "/")
        pkg = os.path.join(self.root, rel, "__init__.py")
        mod = os.path.join(self.root, rel + ".py")
        if os.path.exists(pkg):
            return importlib.machinery.ModuleSpec(fullname, NucsLoader(pkg), origin=pkg, is_package=True)
        if os.path.exists(mod):
            return importlib.machinery.ModuleSpec(fullname, NucsLoader(mod), origin=mod)
        return None


def install(root="/repo"):
    import os

    os.environ["NUMBA_DISABLE_JIT"] = "1"
    np_mod, np_typing, np__typing = make_fake_numpy()
    sys.modules["numpy"] = np_mod
    sys.modules["numpy.typing"] = np_typing
    sys.modules["numpy._typing"] = np__typing
    sys.modules.update(make_fake_numba())
    sys.meta_path.insert(0, NucsFinder(root))
    pass
    # package __path__ needed for submodule import
    return np_mod
