"""call sequences of the model-building API harness (plain data: imported by the symbolic harness and by the replay)"""
SCENARIOS = {
    "default": dict(ctor=(["d0", "d1"], None, None), calls=[("add_variable", "d2", None, None)]),
    "explicit_index0": dict(ctor=(["d0", "d1"], None, None), calls=[("add_variable", "d2", 0, "o")]),
    "explicit_index1_offset0": dict(ctor=(["d0", "d1"], None, None), calls=[("add_variable", "d2", 1, 0)]),
    "explicit_offset_only": dict(ctor=(["d0", "d1"], None, None), calls=[("add_variable", "d2", None, "o")]),
    "many_default": dict(ctor=(["d0"], None, None), calls=[("add_variables", ["d1", "d2"], None, None)]),
    "many_explicit": dict(ctor=(["d0", "d1"], None, None), calls=[("add_variables", ["d2", "d3"], [0, 1], ["o", 0])]),
    "two_calls": dict(ctor=(["d0"], None, None), calls=[("add_variable", "d1", None, None), ("add_variable", "d2", 0, "o")]),
    "onto_shared": dict(ctor=(["d0"], [0, 0], [0, "o"]), calls=[("add_variable", "d1", None, None)]),
}
