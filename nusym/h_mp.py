"""Reducer harness (C11, C17-sums, C18): the real MultiprocessingSolver.solve/minimize/maximize/get_statistics run
against a symbolic environment: Process and Queue are replaced by stubs driven by a nondeterministic scheduler.

Environment model (every choice is a fork, so all schedules within the bound are explored):
  * worker w owns a stream  sol_1 .. sol_k, marker  (k symbolic in [0,K]; objective values / statistics symbolic);
  * with faults on, worker w has a death point d_w in [0, len(stream)]: messages from d_w on are never put
    (d_w = len(stream): healthy);
  * before each delivery the scheduler picks which worker's next pending message arrives (FIFO per worker);
  * Queue.get() without timeout and with nothing that can still arrive blocks forever  -> Hang;
    Queue.get(timeout=..) in that situation raises queue.Empty; while something can still arrive it may also raise
    Empty spuriously (a slow worker), at most `spurious` times per run;
  * Process.is_alive() is False once the worker has put all it will ever put and the scheduler let it exit
    (exit may be observed before the queue is drained: messages in transit); once a worker has been observed as
    exited its pending messages are available to get() without a spurious timeout (the feeder thread is joined at exit).
"""
import queue as _queue

import z3

from . import core
from .core import ENGINE, Hang, SArray, SymInt, as_z3int, DType
from .explore import register
from .relations import AND, OR, zsum

NSTAT = 13
DEPTH_IDX = 11


class Env:
    def __init__(self, E, streams, healthy_len, spurious):
        self.E = E
        self.streams = streams  # per worker: list of messages that WILL be put
        self.healthy_len = healthy_len
        self.ptr = [0] * len(streams)  # delivered
        self.exited = [False] * len(streams)
        self.started = []
        self.gets = 0
        self.spurious_left = spurious
        self.timeouts_used = False
        self.empties = 0
        self.exitcodes = {}
        self.generation = getattr(self, "generation", 0)
        self.leftover = getattr(self, "leftover", [])

    def reset(self, streams, healthy_len, spurious):
        """a further call on the same MultiprocessingSolver object: new worker processes; what the workers of the call before
        had put and nobody read stays in the queue OBJECT they were given (it matters only if that object is used again)"""
        self.leftover = [list(s[p:]) for s, p in zip(self.streams, self.ptr)]
        self.generation += 1
        self.__init__(self.E, streams, healthy_len, spurious)

    def pending(self):
        return [w for w in range(len(self.streams)) if self.ptr[w] < len(self.streams[w])]

    def maybe_exit(self):
        # a worker that has nothing more to put may have exited (observed or not: nondeterministic)
        for w in range(len(self.streams)):
            if not self.exited[w] and self.ptr[w] >= len(self.streams[w]):
                self.exited[w] = True  # delivered everything: it has certainly finished putting; exit is immediate in the model


def make_stubs(env):
    E = env.E

    class FakeProcess:
        def __init__(self, target=None, args=(), **kw):
            self.target, self.args = target, args
            self.idx = None

        def start(self):
            self.idx = len(env.started)
            env.started.append((getattr(self.target, "__name__", str(self.target)), self.args))

        def is_alive(self):
            w = self.idx
            if env.exited[w]:
                return False
            if env.ptr[w] >= len(env.streams[w]):
                env.exited[w] = True
                return False
            # still has messages in transit: it may already have exited after putting them (fork)
            if E.choose(2, "alive") == 0:
                return True
            env.exited[w] = True
            return False

        def join(self, timeout=None):
            # a process that still has messages to hand over may be blocked in Queue.put() until somebody reads the queue:
            # joining it without a timeout before the queue is drained is the documented multiprocessing deadlock
            w = self.idx
            if timeout is None and not env.exited[w] and env.ptr[w] < len(env.streams[w]):
                raise Hang("Process.join() on a worker that still has undelivered messages (blocked in put(), nobody reads the queue)")
            return None

        @property
        def exitcode(self):
            w = self.idx
            if self.is_alive():
                return None
            if len(env.streams[w]) == env.healthy_len[w]:
                return 0
            # a worker that ended before its completion marker: killed (-9), crashed / uncaught exception (1), or ended by
            # raising SystemExit / calling os._exit (status 0 although nothing was announced); chosen once per worker
            codes = env.exitcodes
            if w not in codes:
                codes[w] = (1, -9, 0)[E.choose(3, "exitcode")]
            return codes[w]

        def terminate(self):
            return None

        def kill(self):
            return None

    class FakeQueue:
        def __init__(self, *a, **k):
            self.gen = env.generation

        def get(self, block=True, timeout=None):
            env.gets += 1
            ready = env.pending()
            if not block:
                timeout = 0
            # a queue object created during an earlier call still holds what that call's workers put and nobody read
            old = [w for w in range(len(env.leftover)) if env.leftover[w]] if self.gen < env.generation else []
            if old:
                k = E.choose(len(old) + (1 if ready else 0), "stale-or-fresh")
                if k < len(old):
                    return env.leftover[old[k]].pop(0)
            if not ready:
                if timeout is None:
                    raise Hang("Queue.get() with no timeout and no message that can still arrive")
                env.timeouts_used = True
                env.empties += 1
                raise _queue.Empty()
            # a timeout can expire although messages will still come, but only while their producers are alive and slow:
            # a worker that has exited has flushed its messages into the pipe (multiprocessing joins the feeder thread)
            if timeout is not None and env.spurious_left > 0 and not any(env.exited[w] for w in ready):
                env.timeouts_used = True
                if E.choose(2, "spurious-empty") == 1:
                    env.spurious_left -= 1
                    env.empties += 1
                    raise _queue.Empty()
            w = ready[E.choose(len(ready), "sched")]
            msg = env.streams[w][env.ptr[w]]
            env.ptr[w] += 1
            return msg

        def get_nowait(self):
            return self.get(block=False)

        def empty(self):
            return not env.pending()

        def close(self):
            pass

        def join_thread(self):
            pass

        def cancel_join_thread(self):
            pass

    return FakeProcess, FakeQueue


class FakeWorker:
    """stands for a BacktrackSolver inside the parent: the reducer only passes bound methods to Process"""

    def solve_and_queue(self, *a):
        raise AssertionError("runs in the worker process, never in the parent")

    def minimize_and_queue(self, *a):
        raise AssertionError("runs in the worker process, never in the parent")

    def maximize_and_queue(self, *a):
        raise AssertionError("runs in the worker process, never in the parent")


@register("reducer")
def make(mode, workers=2, K=2, faults=False, spurious=1, select=("C11",), known=(), prior=None):
    """mode: 'solve' | 'minimize' | 'maximize'; prior: a first, healthy call ('solve' | 'minimize') made on the SAME
    MultiprocessingSolver object before the call under test (every worker then only announces completion)"""
    select = set(select)
    B = 1 << 30

    def body(E):
        import nucs.solvers.multiprocessing_solver as MPS

        nsol = [z3.Int(f"n{w}") for w in range(workers)]
        vals = [[z3.Int(f"v{w}_{j}") for j in range(K)] for w in range(workers)]
        stats = [[[z3.Int(f"s{w}_{j}_{i}") for i in range(NSTAT)] for j in range(K + 1)] for w in range(workers)]
        streams, healthy_len, dead_at = [], [], []
        for w in range(workers):
            E.solver.add(nsol[w] >= 0, nsol[w] <= K)
            n = E.concretize(nsol[w])
            msgs = []
            for j in range(n + 1):
                for i in range(NSTAT):
                    E.solver.add(stats[w][j][i] >= (stats[w][j - 1][i] if j > 0 else 0), stats[w][j][i] <= B)
                sv = SArray([SymInt(x) for x in stats[w][j]], (NSTAT,), dtype="int64")
                if j < n:
                    E.solver.add(vals[w][j] >= -B, vals[w][j] <= B)
                    if j > 0 and mode != "solve":
                        E.solver.add(vals[w][j] < vals[w][j - 1] if mode == "minimize" else vals[w][j] > vals[w][j - 1])
                    msgs.append((w, SArray([SymInt(vals[w][j]), 100 * w + j], (2,), dtype="int32"), sv))
                else:
                    msgs.append((w, None, sv))
            healthy_len.append(len(msgs))
            if faults:
                d = E.choose(len(msgs) + 1, "death")  # 0..len(msgs); len(msgs) = healthy
                dead_at.append(d)
                streams.append(msgs[:d])
            else:
                dead_at.append(len(msgs))
                streams.append(msgs)
        any_dead = any(dead_at[w] < healthy_len[w] for w in range(workers))
        prior_streams = [[(w, None, SArray([0] * NSTAT, (NSTAT,), dtype="int64"))] for w in range(workers)]
        if prior == "solve_abandoned":
            # the first call is an enumeration the caller walks away from after its first solution
            prior_streams = [[(w, SArray([-1000 - w], (1,), dtype="int32"), SArray([0] * NSTAT, (NSTAT,), dtype="int64"))] + ps for w, ps in enumerate(prior_streams)]
        env = Env(E, prior_streams, [len(ps) for ps in prior_streams], 0) if prior else Env(E, streams, healthy_len, spurious)
        FP, FQ = make_stubs(env)
        saved = (MPS.Process, MPS.Queue)
        MPS.Process, MPS.Queue = FP, FQ
        E.ctx = dict(dead_at=dead_at, nsol=[len(s) for s in streams], mode=mode, env=env)

        def wit(m=None):
            return dict(harness="reducer", mode=mode, prior=prior, workers=workers, nsol=[healthy_len[w] - 1 for w in range(workers)], dead_at=dead_at, healthy=[dead_at[w] == healthy_len[w] for w in range(workers)], exitcodes={str(w): c for w, c in env.exitcodes.items()})

        def viol(prop, kind, m=None, **kw):
            v = dict(prop=prop, kind=kind, site="MultiprocessingSolver." + ("solve" if mode == "solve" else "optimize"), cls=None, **wit(m))
            v.update(kw)
            E.acc.violation(v)

        try:
            mp = MPS.MultiprocessingSolver([FakeWorker() for _ in range(workers)])
            if prior:
                try:
                    if prior == "solve_abandoned":
                        g_ = mp.solve()
                        next(g_)
                        g_.close()
                        first = []
                    elif prior == "solve":
                        first = list(mp.solve())
                    else:
                        first = mp.minimize(0)
                except Exception as ex:  # noqa
                    viol("C11", "raises-on-healthy-run", detail="first call on the object: " + repr(ex))
                    return
                if first not in ([], None):
                    viol("C11", "solutions-not-the-multiset-union", detail="first call: workers sent no solution", yielded=repr(first)[:80])
                    return
                env.reset(streams, healthy_len, spurious)
            raised = None
            got = []
            best = None
            try:
                if mode == "solve":
                    for s in mp.solve():
                        got.append(s)
                else:
                    best = mp.minimize(0) if mode == "minimize" else mp.maximize(0)
            except Exception as ex:  # noqa: the reducer may legitimately raise when a worker died
                raised = ex
            E.acc.count("returned" if raised is None else "raised:" + type(raised).__name__)
            if any_dead:
                E.acc.count("faulty-run-terminated")
                # C18: the call returned or raised (Hang would have aborted the path): nothing more to ask, except that
                # results delivered before are from real messages
                if raised is None and "C18" in select:
                    sent = [m_[1] for s in streams for m_ in s if m_[1] is not None]
                    if mode == "solve":
                        if any(not any(g is x for x in sent) for g in got):
                            viol("C18", "invented-solution")
                    elif best is not None and not any(best is x for x in sent):
                        viol("C18", "invented-solution")
                return
            # ---------------- healthy run: C11
            if raised is not None:
                if "C11" in select:
                    viol("C11", "raises-on-healthy-run", detail=repr(raised))
                return
            if "C11" not in select:
                return
            sent = [m_[1] for s in streams for m_ in s if m_[1] is not None]
            if len(env.started) != workers:
                viol("C11", "wrong-number-of-workers-started", started=len(env.started))
            if env.pending():
                viol("C11", "returned-before-all-workers-finished", undelivered=[len(streams[w]) - env.ptr[w] for w in range(workers)])
            if mode == "solve":
                ok = len(got) == len(sent) and all(sum(1 for g in got if g is x) == 1 for x in sent)
                if not ok:
                    viol("C11", "solutions-not-the-multiset-union", yielded=len(got), sent=len(sent))
            else:
                allv = [vals[w][j] for w in range(workers) for j in range(healthy_len[w] - 1)]
                if best is None:
                    if allv:
                        viol("C11", "none-although-solutions-exist")
                elif not any(best is x for x in sent):
                    viol("C11", "returned-object-not-a-sent-solution")
                else:
                    bz = as_z3int(best[0])
                    worse = OR([(v < bz) if mode == "minimize" else (v > bz) for v in allv])
                    if E.query(worse):
                        m = E.model()
                        viol("C11", "not-optimal", m, values=[[E.ev(m, vals[w][j]) for j in range(healthy_len[w] - 1)] for w in range(workers)], returned=E.ev(m, bz))
            # statistics = sums (max for depth) of the workers' FINAL vectors
            try:
                agg = mp.get_statistics()
            except Exception as ex:  # noqa
                viol("C11", "get_statistics-raises", detail=repr(ex))
                return
            import nucs.constants as C

            labels = [getattr(C, n) for n in dir(C) if n.startswith("STATS_LBL_")]
            bad = []
            for name in dir(C):
                if name.startswith("STATS_IDX_"):
                    idx = getattr(C, name)
                    lbl = getattr(C, "STATS_LBL_" + name[len("STATS_IDX_"):])
                    finals = [stats[w][healthy_len[w] - 1][idx] for w in range(workers)]
                    if idx == C.STATS_IDX_SOLVER_CHOICE_DEPTH:
                        want = finals[0]
                        for f in finals[1:]:
                            want = z3.If(f > want, f, want)
                    else:
                        want = zsum(finals)
                    bad.append(as_z3int(agg[lbl]) != want)
            if len(agg) != NSTAT:
                viol("C11", "statistics-keys", keys=sorted(agg))
            if E.query(OR(bad)):
                viol("C11", "statistics-not-the-sum-of-final-vectors", E.model())
            if E.check():
                E.acc.sample(dict(wit(), gets=env.gets))
        finally:
            MPS.Process, MPS.Queue = saved

    def on_abort(E, kind, exc):
        if kind == "budget":
            # the reducer polls an empty queue for ever (get(timeout) raising Empty again and again): it does not return
            c = getattr(E, "ctx", {})
            E.acc.count("polls-forever")
            E.acc.violation(dict(prop="C18" if faults else "C11", kind="blocks-forever", site="MultiprocessingSolver." + ("solve" if mode == "solve" else "optimize"), cls=None, harness="reducer", mode=mode, prior=prior, workers=workers, dead_at=c.get("dead_at"), nsol=c.get("nsol"), exitcodes={str(w): x for w, x in c["env"].exitcodes.items()} if c.get("env") else {}, detail="polls the queue without end: " + str(exc)))
            return
        if kind == "hang":
            c = getattr(E, "ctx", {})
            E.acc.count("hang")
            dead = c.get("dead_at")
            v = dict(prop="C18" if faults else "C11", kind="blocks-forever", site="MultiprocessingSolver." + ("solve" if mode == "solve" else "optimize"), cls=None, harness="reducer", mode=mode, prior=prior, workers=workers, dead_at=dead, nsol=c.get("nsol"), exitcodes={str(w): x for w, x in c["env"].exitcodes.items()} if c.get("env") else {}, detail=str(exc))
            ks = [k for k in known if k["kind"] == "blocks-forever" and k["prop"] == v["prop"]]
            if ks:
                v["cls"] = ks[0]["cls"]
            E.acc.violation(v)

    body.on_abort = on_abort
    return body
