"""Model-building API harness (C13): a problem written through Problem.add_variable / add_variables (default and explicit
domain index / offset, on problems with and without shared domains) must be the same model as the one written through the
constructor.  Bounds and offsets are symbolic; the sequence of calls is concrete."""
import z3

from .core import SymInt, as_z3int
from .explore import register
from .relations import OR

# scenario: (constructor arguments, list of calls, expected (dom_indices, dom_offsets) per VARIABLE after the calls,
#            expected returned index per call = index of the first variable added by that call)
# domains are named d0..d4; "o" is the symbolic offset; an expected index "new<k>" means "the shared domain appended by call k"
from .h_build_scenarios import SCENARIOS  # noqa: E402


@register("lemma_build")
def make(scenario, known=()):
    sc = SCENARIOS[scenario]
    known = [k for k in known if k.get("harness") == "build"]
    B = 1 << 30

    def body(E):
        from nucs.problems.problem import Problem

        names = ["d0", "d1", "d2", "d3", "d4"]
        lo = {n: z3.Int(n + "lo") for n in names}
        hi = {n: z3.Int(n + "hi") for n in names}
        o = z3.Int("o")
        E.solver.add(o >= -2, o <= 2)
        for n in names:
            E.solver.add(lo[n] >= -B, hi[n] <= B, lo[n] <= hi[n])

        def dom(n):
            return (SymInt(lo[n]), SymInt(hi[n]))

        def off(x):
            return SymInt(o) if x == "o" else x

        doms, idx, offs = sc["ctor"]
        pb = Problem([dom(n) for n in doms], None if idx is None else list(idx), None if offs is None else [off(x) for x in offs])
        # expected model, kept independently: list of shared domains (by name), per variable (domain position, offset term)
        e_doms = list(doms)
        e_vars = [(i, 0) for i in range(len(doms))] if idx is None else [(i, (o if x == "o" else x)) for i, x in zip(idx, offs)]
        returned, e_returned = [], []
        for call in sc["calls"]:
            e_returned.append(len(e_vars))
            if call[0] == "add_variable":
                _, d, di, do = call
                returned.append(pb.add_variable(dom(d), di, None if do is None else off(do)))
                e_doms.append(d)
                e_vars.append((len(e_doms) - 1 if di is None else di, 0 if do is None else (o if do == "o" else do)))
            else:
                _, ds, dis, dos = call
                returned.append(pb.add_variables([dom(d) for d in ds], None if dis is None else list(dis), None if dos is None else [off(x) for x in dos]))
                for k, d in enumerate(ds):
                    e_doms.append(d)
                    e_vars.append((len(e_doms) - 1 if dis is None else dis[k], 0 if dos is None else (o if dos[k] == "o" else dos[k])))
        E.acc.count("built")

        def wit(m):
            return dict(harness="build", scenario=scenario, o=E.ev(m, o), doms={n: [E.ev(m, lo[n]), E.ev(m, hi[n])] for n in names})

        def viol(kind, m, **kw):
            ks = [k for k in known if k["kind"] == kind]
            v = dict(prop="C13", kind=kind, site="Problem.add_variable(s)", cls=(ks[0]["cls"] if ks else None), **wit(m))
            v.update(kw)
            E.acc.violation(v)

        def ask(kind, bad, **kw):
            if E.query(bad):
                viol(kind, E.model(), **kw)

        nv = len(e_vars)
        if len(pb.dom_indices_lst) != nv or len(pb.dom_offsets_lst) != nv:
            ask("wrong-number-of-variables", z3.BoolVal(True), got=len(pb.dom_indices_lst), expected=nv)
            return
        got_idx = [int(i) for i in pb.dom_indices_lst]
        ask("domain-index-not-as-given", z3.BoolVal(got_idx != [i for i, _ in e_vars]), got=got_idx, expected=[i for i, _ in e_vars])
        ask("offset-not-as-given", OR([as_z3int(g) != (e if not isinstance(e, int) else z3.IntVal(e)) for g, (_, e) in zip(pb.dom_offsets_lst, e_vars)]))
        # every variable ranges over the domain it was given (+ offset): compare the bounds of its shared domain
        bad = []
        for (i, _), g in zip(e_vars, got_idx):
            if g < len(pb.shr_domains_lst) and i < len(e_doms):
                bad += [as_z3int(pb.shr_domains_lst[g][0]) != lo[e_doms[i]], as_z3int(pb.shr_domains_lst[g][1]) != hi[e_doms[i]]]
            else:
                bad.append(z3.BoolVal(True))
        ask("variable-ranges-over-another-domain", OR(bad))
        ask("shared-domain-count-wrong", z3.BoolVal(int(pb.shr_domain_nb) != len(pb.shr_domains_lst)), shr_domain_nb=int(pb.shr_domain_nb), shared_domains=len(pb.shr_domains_lst))
        ask("returned-index-is-not-the-variable", z3.BoolVal([int(r) for r in returned] != e_returned), returned=[int(r) for r in returned], expected=e_returned)
        orphans = [d for d in range(len(pb.shr_domains_lst)) if d not in got_idx]
        # a shared domain no variable uses is still a decision domain: with more than one value it multiplies every solution
        if orphans:
            ask("orphan-shared-domain-multiplies-solutions", OR([as_z3int(pb.shr_domains_lst[d][0]) < as_z3int(pb.shr_domains_lst[d][1]) for d in orphans]), orphans=orphans)

    return body
