"""Whole-run harness: the real Problem / BacktrackSolver (constructor, Problem.init, solve generator, optimize loop,
consistency algorithms, heuristics, backtrack) executed on micro-models whose bounds, offsets and parameters are symbolic.
Serves C01 C02 C03 C04 C08(layer 3) C10(C) C13(twins) C15 C17."""
import itertools

import z3

from . import core
from .core import ENGINE, BudgetExceeded, Obligation, SArray, SymInt, as_z3int, as_z3bool, DType, HAVOC
from .explore import register
from .relations import ZREL, AND, OR, zsum

S = ["s"]

# ------------------------------------------------------------------------------------------------------ micro-models
# vars: list of (shared domain index, offset spec)   offset spec: int | "o<k>" (symbolic in [-2,2])
# props: list of (variable indices, constraint name, parameter spec list)     parameter spec as in h_prop
MODELS = {
    "lt": dict(doms=2, vars=[(0, 0), (1, 0)], props=[([0, 1], "affine_leq", [1, -1, -1])]),
    "sum_eq": dict(doms=2, vars=[(0, 0), (1, 0)], props=[([0, 1], "affine_eq", [1, 1, S])]),
    "noncoprime_eq": dict(doms=2, vars=[(0, 0), (1, 0)], props=[([0, 1], "affine_eq", [2, 2, S])]),
    "lin3": dict(doms=3, vars=[(0, 0), (1, 0), (2, 0)], props=[([0, 1, 2], "affine_eq", [1, -2, 1, S])], D=1),
    "geq_leq": dict(doms=2, vars=[(0, 0), (1, 0)], props=[([0, 1], "affine_geq", [1, 1, S]), ([0, 1], "affine_leq", [2, -1, S])]),
    "alldiff3": dict(doms=3, vars=[(0, 0), (1, 0), (2, 0)], props=[([0, 1, 2], "alldifferent", [])]),
    "alldiff_lt": dict(doms=3, vars=[(0, 0), (1, 0), (2, 0)], props=[([0, 1, 2], "alldifferent", []), ([0, 2], "affine_leq", [1, -1, -1])]),
    "max_eq": dict(doms=3, vars=[(0, 0), (1, 0), (2, 0)], props=[([0, 1, 2], "max_eq", [])]),
    "min_eq": dict(doms=3, vars=[(0, 0), (1, 0), (2, 0)], props=[([0, 1, 2], "min_eq", [])]),
    "max_leq_min_geq": dict(doms=3, vars=[(0, 0), (1, 0), (2, 0)], props=[([0, 1, 2], "max_leq", []), ([2, 1, 0], "min_geq", [])]),
    "queens_like": dict(doms=2, vars=[(0, 0), (1, 0), (0, "o0"), (1, "o1")], props=[([0, 1], "alldifferent", []), ([2, 3], "alldifferent", [])]),
    "shared_offset_lt": dict(doms=2, vars=[(0, 0), (0, "o0"), (1, 0)], props=[([1, 2], "affine_leq", [1, -1, 0])]),
    "shared_twice": dict(doms=1, vars=[(0, 0), (0, "o0")], props=[([0, 1], "affine_leq", [2, -1, 0])], D=3),
    "shared_twice_geq": dict(doms=1, vars=[(0, 0), (0, "o0")], props=[([0, 1], "affine_geq", [2, -1, 0])], D=3),
    "shared_twice_eq": dict(doms=2, vars=[(0, 0), (0, "o0"), (1, 0)], props=[([0, 1, 2], "affine_eq", [1, 1, -1, 0])]),
    # the same with the two occurrences listed in the other order (the occurrence whose bound the other one reads comes LAST)
    "shared_twice_rev": dict(doms=1, vars=[(0, 0), (0, "o0")], props=[([1, 0], "affine_leq", [-1, 2, 0])], D=3),
    "shared_twice_eq_rev": dict(doms=1, vars=[(0, 0), (0, "o0")], props=[([1, 0], "affine_eq", [-2, -1, S])], D=3),
    "same_var_twice": dict(doms=2, vars=[(0, 0), (1, 0)], props=[([0, 0, 1], "affine_eq", [1, 1, -1, 0])]),
    "magic_like": dict(doms=2, vars=[(0, 0), (1, 0)], props=[([0, 1, 0], "count_eq", [0]), ([0, 1, 1], "count_eq", [1])], base=0),
    "count": dict(doms=3, vars=[(0, 0), (1, 0), (2, 0)], props=[([0, 1, 2], "count_eq", [S])]),
    "element_liv": dict(doms=4, vars=[(0, 0), (1, 0), (2, 0), (3, 0)], props=[([0, 1, 2, 3], "element_liv", [])], D=1, base=0),
    "element_iv": dict(doms=2, vars=[(0, 0), (1, 0)], props=[([0, 1], "element_iv", [S, S, S])], base=0),
    "element_lic": dict(doms=3, vars=[(0, 0), (1, 0), (2, 0)], props=[([0, 1, 2], "element_lic", [S])], base=0),
    "lex": dict(doms=4, vars=[(0, 0), (1, 0), (2, 0), (3, 0)], props=[([0, 1, 2, 3], "lexicographic_leq", [])], D=1),
    "relation": dict(doms=2, vars=[(0, 0), (1, 0)], props=[([0, 1], "relation", [S, S, S, S])]),
    "exactly": dict(doms=3, vars=[(0, 0), (1, 0), (2, 0)], props=[([0, 1, 2], "exactly_eq", [S, ["s", 0, 3]])], D=1),
    "and_true": dict(doms=3, vars=[(0, 0), (1, 0), (2, 0)], props=[([0, 1, 2], "and", []), ([0, 1, 2], "exactly_true", [["s", 0, 3]])], D=1, base=0),
    "gcc": dict(doms=2, vars=[(0, 0), (1, 0)], props=[([0, 1], "gcc", [0, ["s", 0, 2], ["s", 0, 2], ["s", 1, 2], ["s", 1, 2]])], D=1, base=0),
    "circuit3": dict(doms=3, vars=[(0, 0), (1, 0), (2, 0)], props=[([0, 1, 2], "alldifferent", []), ([0, 1, 2], "no_sub_cycle", [])], base=0, D=2),
    "circuit3_twice": dict(doms=3, vars=[(0, 0), (1, 0), (2, 0)], props=[([0, 1, 2], "alldifferent", []), ([0, 1, 2], "no_sub_cycle", []), ([0, 1, 2], "no_sub_cycle", [])], base=0, D=2),
    "circuit3_scc": dict(doms=3, vars=[(0, 0), (1, 0), (2, 0)], props=[([0, 1, 2], "alldifferent", []), ([0, 1, 2], "scc", [])], base=0, D=2),
    # a constraint using ONE variable twice (t[s2] = s2, index and value are the same successor) next to a constraint woken by
    # instantiation only: a call may raise the lower bound of one occurrence and lower the upper bound of the other, the variable
    # becomes instantiated although neither occurrence is
    "circuit3_alias": dict(doms=5, vars=[(0, 0), (1, 0), (2, 0), (3, 0), (4, 0)], props=[([0, 1, 2], "alldifferent", []), ([0, 1, 2], "no_sub_cycle", []), ([3, 4, 2, 2], "element_liv", [])], base=0, D=2, thorough_only=True),
    # one call moves BOTH bounds of x (table look-up) while a cheaper constraint, already run, watches only one of them
    # (configuration selection: x_k = T_k[z], x1 + x2 + x3 <= c; fixing z moves both bounds of every x_k, nothing else wakes the sum)
    "config3": dict(doms=4, vars=[(0, 0), (1, 0), (2, 0), (3, 0)], props=[([1, 2, 3], "affine_leq", [1, 1, 1, S]), ([0, 1], "element_iv", [1, 0, 2]), ([0, 2], "element_iv", [1, 2, 0]), ([0, 3], "element_iv", [1, 0, 2])], base=0),
    # thorough tier only: the same structure with SYMBOLIC tables (two look-ups), the solver picks the tables that matter
    "config2_sym": dict(doms=3, vars=[(0, 0), (1, 0), (2, 0)], props=[([1, 2], "affine_leq", [1, 1, S]), ([0, 1], "element_iv", [S, S, S]), ([0, 2], "element_iv", [S, S, S])], base=0, thorough_only=True),
    "config3_geq": dict(doms=4, vars=[(0, 0), (1, 0), (2, 0), (3, 0)], props=[([1, 2, 3], "affine_geq", [1, 1, 1, S]), ([0, 1], "element_iv", [1, 0, 2]), ([0, 2], "element_iv", [1, 2, 0]), ([0, 3], "element_iv", [1, 0, 2])], base=0),
    # restart scenarios of optimize(): the first branch of the first decision is refuted (x + u >= s1 and u - x <= s2 are each
    # bound-consistent at the root), constraints become entailed at the restricted level 0, a solution is found, the next
    # iteration starts again from the full root box
    "restart2": dict(doms=2, vars=[(0, 0), (1, 0)], props=[([0, 1], "affine_geq", [1, 1, S]), ([0, 1], "affine_leq", [-1, 1, S])]),
    "restart3": dict(doms=3, vars=[(0, 0), (1, 0), (2, 0)], props=[([0, 1], "affine_geq", [1, 1, S]), ([0, 1], "affine_leq", [-1, 1, S]), ([0, 2], "affine_leq", [2, 1, S])], D=1),
    # infeasible in a way bound consistency cannot see (x1 = x0 and x1 != x0) next to a free variable: shaving has to refute the values
    # one by one, each refuted probe leaves pending propagators behind
    "eq_diff_free": dict(doms=3, vars=[(0, 0), (1, 0), (2, 0)], props=[([0, 1], "min_eq", []), ([1, 0], "alldifferent", [])], D=3),
    # |x0 - x1| <= 1 written as two constraints of the same type with the same parameters on the same variables in a different order;
    # two different constraints of one type on the same variables
    "abs_diff": dict(doms=2, vars=[(0, 0), (1, 0)], props=[([0, 1], "affine_leq", [1, -1, 1]), ([1, 0], "affine_leq", [1, -1, 1])]),
    "two_leq": dict(doms=2, vars=[(0, 0), (1, 0)], props=[([0, 1], "affine_leq", [1, 1, S]), ([0, 1], "affine_leq", [2, -1, S])]),
    "free2": dict(doms=2, vars=[(0, 0), (1, 0)], props=[]),
    "dummy_only": dict(doms=2, vars=[(0, 0), (1, "o0")], props=[([0, 1], "dummy", [])]),
    "obj_under_leq": dict(doms=2, vars=[(0, 0), (1, 0)], props=[([0, 1], "affine_leq", [1, 1, S])]),
    "obj_shared_offset": dict(doms=2, vars=[(0, 0), (0, "o0"), (1, 0)], props=[([1, 2], "affine_eq", [1, -1, S])]),
}

CONS = {"bc": "CONSISTENCY_ALG_BC", "shaving": "CONSISTENCY_ALG_SHAVING"}
VARH = {"first": "VAR_HEURISTIC_FIRST_NOT_INSTANTIATED", "smallest": "VAR_HEURISTIC_SMALLEST_DOMAIN", "greatest": "VAR_HEURISTIC_GREATEST_DOMAIN", "regret": "VAR_HEURISTIC_MAX_REGRET"}
DOMH = {"min": "DOM_HEURISTIC_MIN_VALUE", "max": "DOM_HEURISTIC_MAX_VALUE", "split": "DOM_HEURISTIC_SPLIT_LOW", "mid": "DOM_HEURISTIC_MID_VALUE", "cost": "DOM_HEURISTIC_MIN_COST"}

STAT_NAMES = ["ALG_BC_NB", "ALG_BC_WITH_SHAVING_NB", "ALG_SHAVING_NB", "ALG_SHAVING_CHANGE_NB", "ALG_SHAVING_NO_CHANGE_NB", "PROPAGATOR_ENTAILMENT_NB", "PROPAGATOR_FILTER_NB", "PROPAGATOR_FILTER_NO_CHANGE_NB", "PROPAGATOR_INCONSISTENCY_NB", "SOLVER_BACKTRACK_NB", "SOLVER_CHOICE_NB", "SOLVER_CHOICE_DEPTH", "SOLVER_SOLUTION_NB"]


def _mods():
    import nucs.heuristics.heuristics as H
    import nucs.propagators.propagators as P
    import nucs.solvers.backtrack_solver as BS
    import nucs.solvers.bound_consistency_algorithm as BCA
    import nucs.solvers.choice_points as CP
    import nucs.solvers.consistency_algorithms as CA
    import nucs.solvers.shaving_consistency_algorithm as SH
    from nucs.problems.problem import Problem

    return H, P, BS, BCA, CP, CA, SH, Problem


class CollectQueue:
    """worker-side stand-in of multiprocessing.Queue: snapshots what is put (pickling happens at put time in the model)"""

    def __init__(self):
        self.msgs = []

    def put(self, msg):
        idx, sol, stats = msg
        self.msgs.append((idx, None if sol is None else sol.copy(), stats.copy()))


class Ctx:
    """the symbolic inputs of one micro-model on the current path"""

    def __init__(self, E, model, D=None, tag=""):
        self.E = E
        md = MODELS[model] if isinstance(model, str) else model
        self.md = md
        self.D = D if D is not None else md.get("D", 2)
        base = md.get("base", "sym")
        self.L = z3.Int("L" + tag) if base == "sym" else z3.IntVal(base)
        if base == "sym":
            E.solver.add(self.L >= -(1 << 20), self.L <= (1 << 20))
        nd = md["doms"]
        self.lo = [z3.Int(f"lo{tag}{d}") for d in range(nd)]
        self.hi = [z3.Int(f"hi{tag}{d}") for d in range(nd)]
        for d in range(nd):
            E.solver.add(self.L <= self.lo[d], self.lo[d] <= self.hi[d], self.hi[d] <= self.L + self.D)
        self.offs = []
        self.offsyms = {}
        for d, o in md["vars"]:
            if isinstance(o, int):
                self.offs.append(o)
            else:
                if o not in self.offsyms:
                    v = z3.Int(o + tag)
                    E.solver.add(v >= -2, v <= 2)
                    self.offsyms[o] = v
                self.offs.append(self.offsyms[o])
        self.params = []
        B = 1 << 20
        for pi, (pv, alg, spec) in enumerate(md["props"]):
            pz = []
            for k, s in enumerate(spec):
                if isinstance(s, int):
                    pz.append(s)
                else:
                    v = z3.Int(f"p{tag}{pi}_{k}")
                    if len(s) == 3:
                        E.solver.add(v >= s[1], v <= s[2])
                    else:
                        E.solver.add(v >= -B, v <= B)
                    pz.append(v)
            self.params.append(pz)

    def sym(self, x):
        return x if isinstance(x, int) else SymInt(x)

    def build(self, Problem, P, order=None):
        md = self.md
        pb = Problem([(SymInt(self.lo[d]), SymInt(self.hi[d])) for d in range(md["doms"])], [d for d, _ in md["vars"]], [self.sym(o) for o in self.offs])
        idxs = list(range(len(md["props"]))) if order is None else list(order)
        for pi in idxs:
            pv, alg, _ = md["props"][pi]
            pb.add_propagator((list(pv), getattr(P, "ALG_" + alg.upper()), [self.sym(p) for p in self.params[pi]]))
        return pb

    # ---- semantic side
    def var_terms(self, x):
        """x: one z3 term per shared domain -> one term per variable"""
        return [x[d] + (o if isinstance(o, int) else o) for (d, _), o in zip(self.md["vars"], self.offs)]

    def in_box(self, x):
        return AND([z3.And(self.lo[d] <= x[d], x[d] <= self.hi[d]) for d in range(self.md["doms"])])

    def all_R(self, vt):
        cs = []
        for pi, (pv, alg, _) in enumerate(self.md["props"]):
            cs.append(ZREL[alg]([vt[v] for v in pv], self.params[pi]))
        return AND(cs)

    def witness(self, m):
        E = self.E
        return dict(
            doms=[[E.ev(m, self.lo[d]), E.ev(m, self.hi[d])] for d in range(self.md["doms"])],
            dom_indices=[d for d, _ in self.md["vars"]],
            offsets=[E.ev(m, o) if not isinstance(o, int) else o for o in self.offs],
            props=[[list(pv), alg, [E.ev(m, p) if not isinstance(p, int) else p for p in self.params[pi]]] for pi, (pv, alg, _) in enumerate(self.md["props"])],
        )


def make_config(E, H, CA, cfg, ctx):
    """cfg = dict(cons, varh, domh, decision=None|list). returns kwargs of BacktrackSolver + concrete/symbolic tables"""
    nd = ctx.md["doms"]
    kw = dict(consistency_alg_idx=getattr(CA, CONS[cfg.get("cons", "bc")]), var_heuristic_idx=getattr(H, VARH[cfg.get("varh", "first")]), dom_heuristic_idx=getattr(H, DOMH[cfg.get("domh", "min")]), stack_max_height=cfg.get("height", 4 * nd + 8))
    if cfg.get("decision") is not None:
        kw["decision_domains"] = list(cfg["decision"])
    tables = {}
    W = ctx.D + 1
    # cost tables: concrete, from a small family that includes ties (symbolic tables are the subject of the one-call
    # heuristic harnesses of C09 / C04; here they would multiply the paths of a whole search)
    fam = cfg.get("table", 0)

    def table(kind):
        if fam == 0:
            return [[1] * W for _ in range(nd)]  # all ties
        if fam == 1:
            return [[1 + ((v + d) % 3) for v in range(W)] for d in range(nd)]
        return [[3 - ((2 * v + d) % 3) for v in range(W)] for d in range(nd)]

    if cfg.get("varh") == "regret":
        t = table("v")
        kw["var_heuristic_params"] = t
        tables["var_costs"] = [[z3.IntVal(c) for c in row] for row in t]
    if cfg.get("domh") == "cost":
        t = table("d")
        kw["dom_heuristic_params"] = t
        tables["dom_costs"] = [[z3.IntVal(c) for c in row] for row in t]
    return kw, tables


def needs_base0(cfg):
    return cfg.get("varh") == "regret" or cfg.get("domh") == "cost"


class Ghost:
    """ghost counters maintained by interposed wrappers (C17)"""

    def __init__(self, E, mods):
        self.E = E
        self.mods = mods
        self.g = dict(filter=0, incons=0, entail=0, nochange=0, choice=0, bt=0, bc=0, shav_passes=0, depth=0)
        self.saved = None

    def install(self):
        H, P, BS, BCA, CP, CA, SH, Problem = self.mods
        E, g = self.E, self.g
        self.saved = (list(P.COMPUTE_DOMAINS_FCTS), list(H.DOM_HEURISTIC_FCTS), list(CA.CONSISTENCY_ALG_FCTS), BS.backtrack, SH.bound_consistency_algorithm)

        def wrap_cd(f):
            def w(dom, par):
                before = dom.copy().flat_values()
                g["filter"] += 1
                st = f(dom, par)
                if st == 0:
                    g["incons"] += 1
                else:
                    if st == 2:
                        g["entail"] += 1
                    after = dom.flat_values()
                    changed = OR([as_z3int(a) != as_z3int(b) for a, b in zip(before, after)])
                    if not E.branch(z3.simplify(changed)):
                        g["nochange"] += 1
                return st

            return w

        for i, f in enumerate(self.saved[0]):
            P.COMPUTE_DOMAINS_FCTS[i] = wrap_cd(f)

        def wrap_dh(f):
            def w(params, stack, ne, du, st, idx):
                g["choice"] += 1
                r = f(params, stack, ne, du, st, idx)
                g["depth"] = max(g["depth"], int(st[0]))
                return r

            return w

        for i, f in enumerate(self.saved[1]):
            H.DOM_HEURISTIC_FCTS[i] = wrap_dh(f)

        def wrap_ca(i, f):
            def w(*a):
                if i == CA.CONSISTENCY_ALG_BC:
                    g["bc"] += 1
                else:
                    g["shav_passes"] += 1
                return f(*a)

            return w

        for i, f in enumerate(self.saved[2]):
            CA.CONSISTENCY_ALG_FCTS[i] = wrap_ca(i, f)
        real_bt = self.saved[3]

        def bt(*a):
            r = real_bt(*a)
            if r:
                g["bt"] += 1
            return r

        BS.backtrack = bt
        real_bc = self.saved[4]

        def bc_in_shaving(*a):
            g["bc"] += 1
            return real_bc(*a)

        SH.bound_consistency_algorithm = bc_in_shaving

    def remove(self):
        H, P, BS, BCA, CP, CA, SH, Problem = self.mods
        P.COMPUTE_DOMAINS_FCTS[:] = self.saved[0]
        H.DOM_HEURISTIC_FCTS[:] = self.saved[1]
        CA.CONSISTENCY_ALG_FCTS[:] = self.saved[2]
        BS.backtrack = self.saved[3]
        SH.bound_consistency_algorithm = self.saved[4]


class FixpointProbe:
    """C08 layer 3: after every consistency pass that reports consistent/solved, the domains are a non-empty subset of
    what they were and re-executing any enabled propagator neither fails nor changes a domain (no_sub_cycle excepted)."""

    def __init__(self, E, mods, ctx, report):
        self.E, self.mods, self.ctx, self.report = E, mods, ctx, report
        self.saved = None
        self.passes = 0

    def alg_name(self, alg):
        P = self.mods[1]
        for n in dir(P):
            if n.startswith("ALG_") and getattr(P, n) == alg:
                return n[4:].lower()
        return str(alg)

    def install(self):
        H, P, BS, BCA, CP, CA, SH, Problem = self.mods
        self.saved = list(CA.CONSISTENCY_ALG_FCTS)
        E = self.E

        def wrap(f):
            def w(statistics, algorithms, var_bounds, param_bounds, dia, doa, pdi, pdo, pp, triggers, stack, ne, du, st, trig, addrs, dec):
                top = int(st[0])
                before = stack[top].copy()
                below = [stack[l].copy() for l in range(top)]
                ne_below = [ne[l].copy() for l in range(top)]
                status = f(statistics, algorithms, var_bounds, param_bounds, dia, doa, pdi, pdo, pp, triggers, stack, ne, du, st, trig, addrs, dec)
                self.passes += 1
                if int(st[0]) != top:
                    self.report("C08", "stack-height-changed-by-pass", None)
                bad = []
                for l in range(top):
                    for a, b in zip(stack[l].flat_values(), below[l].flat_values()):
                        bad.append(as_z3int(a) != as_z3int(b))
                    for a, b in zip(ne[l].flat_values(), ne_below[l].flat_values()):
                        bad.append(as_z3bool(a) != as_z3bool(b))
                if bad and E.query(OR(bad)):
                    self.report("C08", "lower-level-modified-by-pass", E.model())
                if status == 0:
                    return status
                nd = len(stack[top])
                cur = stack[top]
                shr = []
                for d in range(nd):
                    shr.append(z3.Not(z3.And(as_z3int(cur[d, 0]) >= as_z3int(before[d, 0]), as_z3int(cur[d, 1]) <= as_z3int(before[d, 1]), as_z3int(cur[d, 0]) <= as_z3int(cur[d, 1]))))
                if E.query(OR(shr)):
                    self.report("C08", "pass-grew-or-emptied-a-domain", E.model())
                solved = AND([as_z3int(cur[d, 0]) == as_z3int(cur[d, 1]) for d in range(nd)])
                if E.query(solved != z3.BoolVal(status == 2)):
                    self.report("C08", "solved-status-mismatch", E.model())
                # re-execute every enabled propagator on the result
                for p in range(len(algorithms)):
                    en = ne[top, p]
                    if not (en if isinstance(en, bool) else bool(en)):
                        continue
                    vs, ve = int(var_bounds[p, 0]), int(var_bounds[p, 1])
                    idx = pdi[vs:ve]
                    offs = pdo[vs:ve]
                    doms = stack[top, idx] + offs
                    snap = doms.copy()
                    alg = int(algorithms[p])
                    st2 = self.saved_cd[alg](doms, pp[int(param_bounds[p, 0]) : int(param_bounds[p, 1])])
                    if st2 == 0:
                        if E.check():
                            self.report("C08", "enabled-propagator-fails-at-exit", E.model(), prop_index=p, alg_name=self.alg_name(alg))
                        continue
                    if alg == P.ALG_NO_SUB_CYCLE:
                        continue
                    ch = OR([as_z3int(a) != as_z3int(b) for a, b in zip(doms.flat_values(), snap.flat_values())])
                    if E.query(ch):
                        self.report("C08", "not-a-fixpoint-at-exit", E.model(), prop_index=p, alg_name=self.alg_name(alg))
                return status

            return w

        self.saved_cd = list(P.COMPUTE_DOMAINS_FCTS)
        for i, f in enumerate(self.saved):
            CA.CONSISTENCY_ALG_FCTS[i] = wrap(f)

    def remove(self):
        H, P, BS, BCA, CP, CA, SH, Problem = self.mods
        CA.CONSISTENCY_ALG_FCTS[:] = self.saved


class EntailProbe:
    """C07, engine level: whenever a consistency algorithm is entered, every constraint that is disabled at the current level
    (its flag in not_entailed_propagators_stack is off) is entailed by the current box: no tuple of the box violates its
    documented relation.  The flag rows are what cp_put copies, backtrack restores and reset / cp_init re-arm."""

    SKIP = ("no_sub_cycle", "scc", "dummy")  # decisive on permutations only / never entailed by design

    def __init__(self, E, mods, ctx, report, alg_name):
        self.E, self.mods, self.ctx, self.report, self.alg_name = E, mods, ctx, report, alg_name
        self.saved = None
        self.checked = 0

    def install(self):
        H, P, BS, BCA, CP, CA, SH, Problem = self.mods
        self.saved = list(CA.CONSISTENCY_ALG_FCTS)
        E = self.E

        def wrap(f):
            def w(statistics, algorithms, var_bounds, param_bounds, dia, doa, pdi, pdo, pp, triggers, stack, ne, du, st, trig, addrs, dec):
                top = int(st[0])
                nd = len(stack[top])
                for p in range(len(algorithms)):
                    en = ne[top, p]
                    if en if isinstance(en, bool) else bool(en):
                        continue
                    name = self.alg_name(int(algorithms[p]))
                    if name in self.SKIP or name not in ZREL:
                        continue
                    vs, ve = int(var_bounds[p, 0]), int(var_bounds[p, 1])
                    idx = [int(i) for i in pdi[vs:ve].flat_values()]
                    offs = [as_z3int(o) for o in pdo[vs:ve].flat_values()]
                    par = [as_z3int(q) for q in pp[int(param_bounds[p, 0]) : int(param_bounds[p, 1])].flat_values()]
                    x = {d: z3.Int(f"ent{d}") for d in set(idx)}
                    box = AND([z3.And(as_z3int(stack[top, d, 0]) <= x[d], x[d] <= as_z3int(stack[top, d, 1])) for d in x])
                    self.checked += 1
                    E.acc.count("disabled-constraint-checked")
                    if E.query(z3.And(box, z3.Not(ZREL[name]([x[d] + o for d, o in zip(idx, offs)], par)))):
                        self.report("C07", "disabled-constraint-not-entailed", E.model(), prop_index=p, alg_name=name, level=top, modes=["interpreted"])
                return f(statistics, algorithms, var_bounds, param_bounds, dia, doa, pdi, pdo, pp, triggers, stack, ne, du, st, trig, addrs, dec)

            return w

        for i, f in enumerate(self.saved):
            CA.CONSISTENCY_ALG_FCTS[i] = wrap(f)

    def remove(self):
        CA = self.mods[5]
        CA.CONSISTENCY_ALG_FCTS[:] = self.saved


@register("solve")
def make(model, cfg=None, mode="solve", select=("C01", "C02"), order=None, objective=0, D=None, known=(), history=None, loop_budget=None, partial=None):
    """mode: solve | minimize | maximize"""
    cfg = dict(cfg or {})
    select = set(select)
    md = MODELS[model]
    if needs_base0(cfg) and md.get("base", "sym") == "sym":
        md = dict(md, base=0)
    known = [k for k in known if k.get("model") in (None, model)]

    def body(E):
        mods = _mods()
        H, P, BS, BCA, CP, CA, SH, Problem = mods
        ctx = Ctx(E, md, D)
        nd = md["doms"]
        nv = len(md["vars"])
        E.ctx = dict(ctx=ctx, cfg=cfg)
        kw, tables = make_config(E, H, CA, cfg, ctx)
        W = ctx.D + 1
        max_sols = W**nd

        def wit(m):
            w = ctx.witness(m)
            w.update(harness="solve", model=model, cfg=cfg, mode=mode, objective=objective, order=order)
            for k, t in tables.items():
                w[k] = [[E.ev(m, c) for c in row] for row in t]
            return w

        def report(prop, kind, m, **kw2):
            if prop not in select:
                return
            if m is None:
                m = E.model() if E.check() else None
            v = dict(prop=prop, kind=kind, site=f"solve/{model}", cls=None)
            if m is not None:
                v.update(wit(m))
            v.update(kw2)
            if E.pc_mentions_havoc():
                v["havoc_dependent"] = True
            ks = [k for k in known if k["kind"] == kind and k["prop"] == prop and (k.get("alg") is None or k.get("alg") == kw2.get("alg_name"))]
            if ks:
                v["cls"] = ks[0]["cls"]
            E.acc.violation(v)

        ghost = Ghost(E, mods) if "C17" in select else None
        probe = FixpointProbe(E, mods, ctx, report) if "C08" in select else None
        eprobe = EntailProbe(E, mods, ctx, report, FixpointProbe(E, mods, ctx, report).alg_name) if "C07" in select else None
        rounds = [0]
        real_solve_one = BS.solve_one
        if mode not in ("solve", "solve_q"):
            budget_rounds = ctx.D + 3

            def counted(*a):
                rounds[0] += 1
                if rounds[0] > budget_rounds:
                    raise BudgetExceeded("optimize: more than width+3 = %d calls of solve_one" % budget_rounds)
                return real_solve_one(*a)

            BS.solve_one = counted
        # unwinding assertion on one propagation pass: pops <= 4 (P+1) (S+2), S = total domain size (DESIGN 1.7)
        pass_budget = 4 * (len(md["props"]) + 1) * (nd * W + 2)
        pops = [0]
        real_pop = BCA.pop_propagator

        def counted_pop(tp, prev):
            if prev == -1:
                pops[0] = 0
            pops[0] += 1
            if pops[0] > pass_budget:
                raise BudgetExceeded("one propagation pass popped more than 4(P+1)(S+2) = %d propagators" % pass_budget)
            return real_pop(tp, prev)

        BCA.pop_propagator = counted_pop
        if eprobe:
            eprobe.install()
        if probe:
            probe.install()
        if ghost:
            ghost.install()
        sols = []
        kept = []
        refused = []
        best = None
        stats = None
        reg_lens = (len(P.COMPUTE_DOMAINS_FCTS), len(P.GET_TRIGGERS_FCTS), len(P.GET_COMPLEXITY_FCTS), len(H.DOM_HEURISTIC_FCTS), len(H.VAR_HEURISTIC_FCTS), len(CA.CONSISTENCY_ALG_FCTS))
        try:
            pb = ctx.build(Problem, P, order)
            if history:
                run_history(E, mods, pb, history, kw)
            solver = BS.BacktrackSolver(pb, **kw)
            if mode == "solve":
                for s in solver.solve():
                    sols.append(s.tolist())
                    kept.append(s)  # the objects handed to the caller: what they hold must not change afterwards
                    if len(sols) > max_sols:
                        report("C02", "more-solutions-than-assignments", None, count=len(sols))
                        return
                    if partial is not None and len(sols) >= partial:
                        break  # partial enumeration: the statistics are observed here
            elif mode == "minimize":
                best = solver.minimize(objective)
            elif mode == "maximize":
                best = solver.maximize(objective)
            else:
                # worker entry points of the multiprocessing solver, against a collecting queue (worker-side stream contract)
                q = CollectQueue()
                if mode == "solve_q":
                    solver.solve_and_queue(7, q)
                elif mode == "minimize_q":
                    solver.minimize_and_queue(objective, 7, q)
                else:
                    solver.maximize_and_queue(objective, 7, q)
                okc = len(q.msgs) >= 1 and q.msgs[-1][1] is None and all(m_[1] is not None for m_ in q.msgs[:-1]) and all(m_[0] == 7 for m_ in q.msgs)
                for a_, b_ in zip(q.msgs, q.msgs[1:]):
                    okc = okc and all(int(x_) <= int(y_) for x_, y_ in zip(a_[2].tolist(), b_[2].tolist()))
                if not okc:
                    report("C11" if "C11" in select else "C01", "worker-stream-contract-broken", None, messages=len(q.msgs))
                stream = [m_[1].tolist() for m_ in q.msgs[:-1]]
                if mode == "solve_q":
                    sols = stream
                else:
                    if stream:
                        best = q.msgs[-2][1]
                        imp = OR([(as_z3int(b_[objective]) >= as_z3int(a_[objective])) if mode == "minimize_q" else (as_z3int(b_[objective]) <= as_z3int(a_[objective])) for a_, b_ in zip(stream, stream[1:])])
                        if len(stream) > 1 and E.query(imp):
                            report("C11" if "C11" in select else "C03", "worker-stream-not-strictly-improving", E.model())
            stats = solver.get_statistics()
        except ValueError as ex:
            # decision domains that do not determine every variable: the search may legitimately end by REFUSING to go on
            # (the source raises); nothing has been reported to the caller beyond what is judged below
            if not cfg.get("underdetermined") or not ("stack" in str(ex) or "decision domains" in str(ex)):
                raise
            E.acc.count("refused:" + str(ex)[:40])
            refused.append(True)
            if mode != "solve":
                return
        except Obligation as o:
            E.acc.count("obligation:" + o.kind)
            prefer = ["C16"] + (["C03"] if mode not in ("solve", "solve_q") else []) + ["C01", "C04", "C02", "C17", "C08", "C15", "C07"]
            prop = next((p_ for p_ in prefer if p_ in select), None)
            if prop is None:
                E.acc.count("budget-unlisted")  # no result to judge
            elif o.model is not None:
                report(prop, "obligation-" + o.kind, o.model, detail=o.detail)
            return
        finally:
            BS.solve_one = real_solve_one
            BCA.pop_propagator = real_pop
            if ghost:
                ghost.remove()
            if probe:
                probe.remove()
            if eprobe:
                eprobe.remove()
            for lst, n in zip((P.COMPUTE_DOMAINS_FCTS, P.GET_TRIGGERS_FCTS, P.GET_COMPLEXITY_FCTS, H.DOM_HEURISTIC_FCTS, H.VAR_HEURISTIC_FCTS, CA.CONSISTENCY_ALG_FCTS), reg_lens):
                del lst[n:]
        # C01: a solution handed to the caller keeps its value while the enumeration goes on (no view on the solver's own arrays)
        if kept and "C01" in select:
            ch = OR([as_z3int(a) != as_z3int(b) for arr, snap in zip(kept, sols) for a, b in zip(arr.tolist(), snap)])
            if E.query(ch):
                report("C01", "yielded-solution-changed-afterwards", E.model())
        opt_dir = {"minimize": "min", "minimize_q": "min", "maximize": "max", "maximize_q": "max"}.get(mode)
        enum_mode = mode in ("solve", "solve_q")
        if not enum_mode:
            sols = [] if best is None else [best.tolist()]
        E.acc.count(f"solutions:{len(sols)}")
        # ------------------------------------------------------------------ semantic side
        x = [z3.Int(f"x{d}") for d in range(nd)]
        vt = ctx.var_terms(x)
        sem = z3.And(ctx.in_box(x), ctx.all_R(vt))
        solz = [[as_z3int(v) for v in s] for s in sols]
        # C01: every reported vector is inside the domains, respects the offsets, satisfies every constraint
        bad01 = []
        for s in solz:
            xs = [None] * nd
            for vi, (d, _) in enumerate(md["vars"]):
                o = ctx.offs[vi]
                val = s[vi] - o
                if xs[d] is None:
                    xs[d] = val
                else:
                    bad01.append(val != xs[d])
            for d in range(nd):
                if xs[d] is None:
                    continue
                bad01.append(z3.Not(z3.And(ctx.lo[d] <= xs[d], xs[d] <= ctx.hi[d])))
            bad01.append(z3.Not(ctx.all_R(s)))
        p01 = "C01" if enum_mode else "C03"
        if p01 in select or "C01" in select:
            if bad01 and E.query(OR(bad01)):
                m = E.model()
                report("C01" if "C01" in select else p01, "reported-vector-is-not-a-solution", m, solutions=[[E.ev(m, v) for v in s] for s in solz])

        def dom_vec(s):
            out = [None] * nd
            for vi, (d, _) in enumerate(md["vars"]):
                if out[d] is None:
                    out[d] = s[vi] - ctx.offs[vi]
            return out

        full_decision = cfg.get("decision") is None
        if enum_mode and "C02" in select and full_decision and partial is None:
            dv = [dom_vec(s) for s in solz]
            dup = OR([AND([a == b for a, b in zip(dv[i], dv[j]) if a is not None]) for i in range(len(dv)) for j in range(i + 1, len(dv))])
            if E.query(dup):
                m = E.model()
                report("C02", "solution-yielded-twice", m, solutions=[[E.ev(m, v) for v in s] for s in solz])
            missing = z3.And(sem, AND([OR([x[d] != v[d] for d in range(nd) if v[d] is not None]) for v in dv]))
            if E.query(missing):
                m = E.model()
                report("C02", "solution-missing", m, solutions=[[E.ev(m, v) for v in s] for s in solz], missing=[E.ev(m, t) for t in vt])
        if not enum_mode and "C03" in select:
            if best is None:
                if E.query(sem):
                    m = E.model()
                    report("C03", "none-although-feasible", m, feasible=[E.ev(m, t) for t in vt])
            else:
                bz = solz[0][objective]
                better = z3.And(sem, vt[objective] < bz if opt_dir == "min" else vt[objective] > bz)
                if E.query(better):
                    m = E.model()
                    report("C03", "not-optimal", m, returned=[E.ev(m, v) for v in solz[0]], better=[E.ev(m, t) for t in vt])
        # ------------------------------------------------------------------ statistics (C17)
        if ghost and stats is not None:
            g = ghost.g
            exp = {"PROPAGATOR_FILTER_NB": g["filter"], "PROPAGATOR_INCONSISTENCY_NB": g["incons"], "PROPAGATOR_ENTAILMENT_NB": g["entail"], "PROPAGATOR_FILTER_NO_CHANGE_NB": g["nochange"], "SOLVER_CHOICE_NB": g["choice"] if cfg.get("cons", "bc") == "bc" else None, "SOLVER_BACKTRACK_NB": g["bt"] if cfg.get("cons", "bc") == "bc" else None, "ALG_BC_NB": g["bc"], "SOLVER_CHOICE_DEPTH": g["depth"] if cfg.get("cons", "bc") == "bc" else None, "SOLVER_SOLUTION_NB": len(sols) if enum_mode else None}
            wrong = {k: (int(stats[k]), v) for k, v in exp.items() if v is not None and int(stats[k]) != v}
            if enum_mode and partial is None and cfg.get("cons", "bc") == "bc":
                if int(stats["ALG_BC_NB"]) != 1 + int(stats["SOLVER_CHOICE_NB"]) + int(stats["SOLVER_BACKTRACK_NB"]):
                    wrong["law:passes=1+choices+backtracks"] = (int(stats["ALG_BC_NB"]), int(stats["SOLVER_CHOICE_NB"]), int(stats["SOLVER_BACKTRACK_NB"]))
            for k, v in wrong.items():
                report("C17", "counter-mismatch:" + k, None, reported_expected=list(v))
        # ------------------------------------------------------------------ mode hazards (C15)
        if "C15" in select and core.FLAGS.hazards and E.check():
            m = E.model()
            E.acc.count("mode-hazard-paths")
            v = dict(prop="C15", kind="mode-hazard", site="hazard:" + str(core.FLAGS.hazards[0].get("where"))[:80], cls=None, benign_if_not_reproduced=True, modes=["jit"], hazard=core.FLAGS.hazards[0], hazards=len(core.FLAGS.hazards))
            v.update(wit(m))
            E.acc.violation(v)
        # ------------------------------------------------------------------ uninitialised memory (C15)
        if "C15" in select:
            names = {str(h.e) for h in HAVOC}
            used = set()
            for s in solz:
                for v in s:
                    used |= {str(c) for c in _consts(v)}
            if used & names:
                report("C15", "result-depends-on-uninitialised-memory", None, cells=sorted(used & names)[:5])
        dep = E.pc_mentions_havoc()
        if dep:
            # the run took a decision on a cell of an np.empty array: what the real build does depends on what that memory holds
            E.acc.count("control-flow-depends-on-uninitialised-memory")
            if "C15" in select:
                report("C15", "control-flow-depends-on-uninitialised-memory", None, cells=dep[:5], modes=["interpreted"])
            return  # no witness for the per-path validation: the real memory content is not the solver's choice
        # ------------------------------------------------------------------ witness for validation
        if refused:
            return  # the real run raises as well (not compared: the validation batch expects a completed run)
        if E.check():
            m = E.model()
            w = wit(m)
            w["solutions"] = [[E.ev(m, v) for v in s] for s in solz]
            w["none"] = best is None and not enum_mode
            w["partial"] = partial
            if stats is not None:
                w["stats"] = {k: int(v) for k, v in stats.items()}
            if history:
                w["history"] = history
            E.acc.valid(w)
            E.acc.sample({k: w[k] for k in ("model", "doms", "offsets", "props", "cfg", "mode", "solutions")})

    def on_abort(E, kind, exc):
        if kind == "budget":
            E.acc.count("abort:budget")
            c = getattr(E, "ctx", None)
            prop = "C04" if "C04" in select else ("C03" if mode not in ("solve", "solve_q") and "C03" in select else None)
            if prop is None:
                E.acc.count("budget-unlisted")
                return
            if c and E.check():
                m = E.model()
                w = c["ctx"].witness(m)
                v = dict(prop=prop, kind="budget", site=f"solve/{model}", cls=None, harness="solve", model=model, cfg=cfg, mode=mode, objective=objective, order=order, detail=str(exc), **w)
                ks = [k for k in known if k["kind"] == "budget" and k["prop"] == prop]
                if ks:
                    v["cls"] = ks[0]["cls"]
                E.acc.violation(v)

    body.on_abort = on_abort
    return body


def _consts(e):
    out = set()
    stack = [e]
    seen = set()
    while stack:
        t = stack.pop()
        if t.get_id() in seen:
            continue
        seen.add(t.get_id())
        if z3.is_const(t) and t.decl().kind() == z3.Z3_OP_UNINTERPRETED:
            out.add(t)
        stack.extend(t.children())
    return out


def run_history(E, mods, pb, history, kw):
    """earlier uses of the problem / the process before the solver under test is created (C15)"""
    H, P, BS, BCA, CP, CA, SH, Problem = mods
    for h in history:
        if h == "other_solver_abandoned":
            s0 = BS.BacktrackSolver(pb, **kw)
            it = s0.solve()
            for _ in range(2):
                try:
                    next(it)
                except StopIteration:
                    break
        elif h == "other_solver_exhausted":
            s0 = BS.BacktrackSolver(pb, **kw)
            for _ in s0.solve():
                pass
        elif h == "minimize_first":
            s0 = BS.BacktrackSolver(pb, **kw)
            s0.minimize(0)
        elif h == "register_extras":
            from nucs.propagators.dummy_propagator import compute_domains_dummy, get_complexity_dummy, get_triggers_dummy

            P.register_propagator(get_triggers_dummy, get_complexity_dummy, compute_domains_dummy)
            H.register_dom_heuristic(H.DOM_HEURISTIC_FCTS[0])
            H.register_var_heuristic(H.VAR_HEURISTIC_FCTS[0])
            CA.register_consistency_algorithm(CA.CONSISTENCY_ALG_FCTS[0])
        elif h == "split":
            pb.split(2, 0)
        elif h == "then_split_part0":
            pass  # handled by the caller: the solver under test is built on the first part of a split of the problem
        elif h == "init_twice":
            pb.init()
        elif h == "sibling_problem":
            # an unrelated problem with the same constraint types but other parameter vectors was solved earlier
            sib = Problem([(0, 1)] * len(pb.shr_domains_lst), list(pb.dom_indices_lst), [0] * len(pb.dom_indices_lst))
            for pv, alg, params in pb.propagators:
                name = None
                for n_ in dir(P):
                    if n_.startswith("ALG_") and getattr(P, n_) == alg:
                        name = n_[4:].lower()
                if name == "relation":
                    sib.add_propagator((list(pv), alg, [0] * len(pv)))  # one allowed tuple instead of several
                elif name == "element_iv":
                    sib.add_propagator((list(pv), alg, [0]))
                elif name == "gcc":
                    sib.add_propagator((list(pv), alg, [0, 0, len(pv)]))
                else:
                    sib.add_propagator((list(pv), alg, [0 if not isinstance(x, int) else x for x in params]))
            s0 = BS.BacktrackSolver(sib, **kw)
            it = s0.solve()
            try:
                next(it)
            except StopIteration:
                pass
        else:
            raise ValueError(h)


@register("history")
def make_history(model, history, cfg=None, D=None):
    """C15: the same model solved (A) by a fresh solver on a fresh problem and (B) after a history of earlier uses of the
    process / of the problem object; solution sequences (as terms over the symbolic inputs) and statistics must be equal"""
    cfg = dict(cfg or {})
    md = MODELS[model]
    if needs_base0(cfg) and md.get("base", "sym") == "sym":
        md = dict(md, base=0)

    def body(E):
        # scenario A and scenario B each start from freshly executed module bodies (= a fresh interpreter as far as nucs'
        # own module-level state is concerned); B then goes through the history before the solver under test is built
        core.reload_nucs()
        from . import h_prop

        h_prop._P = None
        mods = _mods()
        H, P, BS, BCA, CP, CA, SH, Problem = mods
        ctx = Ctx(E, md, D)
        kw, tables = make_config(E, H, CA, cfg, ctx)
        defaults_before = repr(BS.BacktrackSolver.__init__.__defaults__)
        reg_lens = (len(P.COMPUTE_DOMAINS_FCTS), len(P.GET_TRIGGERS_FCTS), len(P.GET_COMPLEXITY_FCTS), len(H.DOM_HEURISTIC_FCTS), len(H.VAR_HEURISTIC_FCTS), len(CA.CONSISTENCY_ALG_FCTS))

        def viol(kind, m=None, **kw2):
            if m is None:
                m = E.model() if E.check() else None
            v = dict(prop="C15", kind=kind, site=f"history/{model}", cls=None, harness="solve", model=model, cfg=cfg, mode="solve", objective=0, order=None, history=list(history))
            if m is not None:
                v.update(ctx.witness(m))
            v.update(kw2)
            E.acc.violation(v)

        try:
            pbA = ctx.build(Problem, P)
            if "then_split_part0" in history:
                pbA = pbA.split(2, 0)[0]
            sA = BS.BacktrackSolver(pbA, **kw)
            solsA = [s.tolist() for s in sA.solve()]
            statsA = sA.get_statistics()
            core.reload_nucs()
            h_prop._P = None
            mods = _mods()
            H, P, BS, BCA, CP, CA, SH, Problem = mods
            kw, _ = make_config(E, H, CA, cfg, ctx)
            pbB = ctx.build(Problem, P)
            snapshot = ([list(x) for x in pbB.shr_domains_lst], list(pbB.dom_indices_lst), list(pbB.dom_offsets_lst), [(list(a), b, list(c)) for a, b, c in pbB.propagators])
            run_history(E, mods, pbB, history, kw)
            if "then_split_part0" in history:
                whole = pbB
                pbB = pbB.split(2, 0)[0]
                snapshot = ([list(x) for x in pbB.shr_domains_lst], list(pbB.dom_indices_lst), list(pbB.dom_offsets_lst), [(list(a), b, list(c)) for a, b, c in pbB.propagators])
            sB = BS.BacktrackSolver(pbB, **kw)
            solsB = [s.tolist() for s in sB.solve()]
            statsB = sB.get_statistics()
        except Obligation as o:
            E.acc.count("obligation:" + o.kind)
            return
        finally:
            core.reload_nucs()  # leave fresh modules behind (the registrations of the history die with the old modules)
            h_prop._P = None
        E.acc.count(f"solutions:{len(solsA)}")
        if len(solsA) != len(solsB):
            viol("different-number-of-solutions-after-history", a=len(solsA), b=len(solsB))
            return
        diff = OR([as_z3int(x) != as_z3int(y) for sa, sb in zip(solsA, solsB) for x, y in zip(sa, sb)])
        if E.query(diff):
            m = E.model()
            viol("different-solution-sequence-after-history", m, fresh=[[E.ev(m, as_z3int(v)) for v in s] for s in solsA], after=[[E.ev(m, as_z3int(v)) for v in s] for s in solsB])
        if {k: int(v) for k, v in statsA.items()} != {k: int(v) for k, v in statsB.items()}:
            viol("different-statistics-after-history", fresh=dict(statsA), after=dict(statsB))
        # the problem object keeps its meaning (sorting the propagators by complexity is the documented effect of init)
        same_meaning = sorted(map(repr, [(list(a), b, [str(x) for x in c]) for a, b, c in pbB.propagators])) == sorted(map(repr, [(a, b, [str(x) for x in c]) for a, b, c in snapshot[3]])) and list(pbB.dom_indices_lst) == snapshot[1] and len(pbB.shr_domains_lst) == len(snapshot[0])
        if not same_meaning:
            viol("problem-object-changed-by-solver-construction")
        else:
            bad = [as_z3int(x) != as_z3int(y) for d0, d1 in zip(pbB.shr_domains_lst, snapshot[0]) for x, y in zip(d0, d1)]
            bad += [as_z3int(x) != as_z3int(y) for x, y in zip(pbB.dom_offsets_lst, snapshot[2])]
            if "split" not in history and E.query(OR(bad)):
                viol("problem-object-changed-by-solver-construction", E.model())
        if repr(BS.BacktrackSolver.__init__.__defaults__) != defaults_before:
            viol("mutable-default-argument-mutated")
        names = {str(h.e) for h in HAVOC}
        used = set()
        for s in solsA + solsB:
            for v in s:
                if not isinstance(v, int):
                    used |= {str(c) for c in _consts(as_z3int(v))}
        if used & names:
            viol("result-depends-on-uninitialised-memory", cells=sorted(used & names)[:5])
        if E.check():
            m = E.model()
            w = ctx.witness(m)
            w.update(harness="solve", model=model, cfg=cfg, mode="solve", objective=0, order=None, history=list(history))
            for k, t in tables.items():
                w[k] = [[E.ev(m, c) for c in row] for row in t]
            w["solutions"] = [[E.ev(m, as_z3int(v)) for v in s] for s in solsB]
            w["stats"] = {k: int(v) for k, v in statsB.items()}
            E.acc.valid(w)
            E.acc.sample({k: w[k] for k in ("model", "doms", "offsets", "history", "solutions")})

    return body
