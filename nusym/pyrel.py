"""Pure-Python evaluators of the documented relations (docs/source/reference.rst); used by replays on the real build and
to cross-validate the z3 encoders.  No dependency on z3 / numpy: importable from /venv/bin/python and python3-vt."""


def r_and(t, p):
    return all(x in (0, 1) for x in t) and (1 if all(x == 1 for x in t[:-1]) else 0) == t[-1]


def r_affine_eq(t, p):
    return sum(c * x for c, x in zip(p[:-1], t)) == p[-1]


def r_affine_geq(t, p):
    return sum(c * x for c, x in zip(p[:-1], t)) >= p[-1]


def r_affine_leq(t, p):
    return sum(c * x for c, x in zip(p[:-1], t)) <= p[-1]


def r_alldifferent(t, p):
    return len(set(t)) == len(t)


def r_count_eq(t, p):
    return sum(1 for x in t[:-1] if x == p[0]) == t[-1]


def r_dummy(t, p):
    return True


def r_element_iv(t, p):
    i, v = t
    return 0 <= i < len(p) and p[i] == v


def r_element_lic(t, p):
    l, i = t[:-1], t[-1]
    return 0 <= i < len(l) and l[i] == p[0]


def r_element_liv(t, p):
    l, i, v = t[:-2], t[-2], t[-1]
    return 0 <= i < len(l) and l[i] == v


def r_exactly_eq(t, p):
    return sum(1 for x in t if x == p[0]) == p[1]


def r_exactly_true(t, p):
    return all(x in (0, 1) for x in t) and sum(1 for x in t if x == 1) == p[0]


def r_gcc(t, p):
    m = (len(p) - 1) // 2
    v0 = p[0]
    if not all(v0 <= x < v0 + m for x in t):
        return False
    for j in range(m):
        c = sum(1 for x in t if x == v0 + j)
        if not (p[1 + j] <= c <= p[1 + m + j]):
            return False
    return True


def r_lexicographic_leq(t, p):
    n = len(t) // 2
    return list(t[:n]) <= list(t[n:])


def r_max_eq(t, p):
    return max(t[:-1]) == t[-1]


def r_max_leq(t, p):
    return max(t[:-1]) <= t[-1]


def r_min_eq(t, p):
    return min(t[:-1]) == t[-1]


def r_min_geq(t, p):
    return min(t[:-1]) >= t[-1]


def _is_perm(t):
    return sorted(t) == list(range(len(t)))


def r_no_sub_cycle(t, p):
    """on permutations of 0..n-1: no cycle of length < n (i.e. a single n-cycle)"""
    n = len(t)
    if not _is_perm(t):
        return False
    k, j = 0, 0
    while True:
        j = t[j]
        k += 1
        if j == 0:
            break
    return k == n


def r_scc(t, p):
    """on permutations: the successor graph is strongly connected (single n-cycle)"""
    return r_no_sub_cycle(t, p)


def r_relation(t, p):
    n = len(t)
    rows = [list(p[k : k + n]) for k in range(0, len(p), n)]
    return list(t) in rows


PYREL = {
    "and": r_and,
    "affine_eq": r_affine_eq,
    "affine_geq": r_affine_geq,
    "affine_leq": r_affine_leq,
    "alldifferent": r_alldifferent,
    "count_eq": r_count_eq,
    "dummy": r_dummy,
    "element_iv": r_element_iv,
    "element_lic": r_element_lic,
    "element_liv": r_element_liv,
    "exactly_eq": r_exactly_eq,
    "exactly_true": r_exactly_true,
    "gcc": r_gcc,
    "lexicographic_leq": r_lexicographic_leq,
    "max_eq": r_max_eq,
    "max_leq": r_max_leq,
    "min_eq": r_min_eq,
    "min_geq": r_min_geq,
    "no_sub_cycle": r_no_sub_cycle,
    "relation": r_relation,
    "scc": r_scc,
}

ALG_ATTR = {k: "ALG_" + k.upper() for k in PYREL}
