"""Problem.split harness (C12): the real split() on problems with symbolic bounds, offsets and number of parts."""
import z3

from . import core
from .core import SymInt, as_z3int, Obligation
from .explore import register
from .relations import AND, OR

SHAPES = {
    # name: (builder(a,b,c,d,o) -> (shr_domains, dom_indices, dom_offsets), split variable, its shared domain)
    "own1": (lambda a, b, c, d, o: ([(a, b)], None, None), 0, 0),
    "own2_v0": (lambda a, b, c, d, o: ([(a, b), (c, d)], None, None), 0, 0),
    "own2_v1": (lambda a, b, c, d, o: ([(c, d), (a, b)], None, None), 1, 1),
    "shared_v1": (lambda a, b, c, d, o: ([(a, b)], [0, 0], [0, o]), 1, 0),
    "shared3_v2": (lambda a, b, c, d, o: ([(c, d), (a, b)], [0, 1, 1], [0, 0, o]), 2, 1),
    "crossed_v0": (lambda a, b, c, d, o: ([(c, d), (a, b)], [1, 0], [o, 0]), 0, 1),
}


@register("split")
def make(shape, K=8, known=()):
    build, var, dom = SHAPES[shape]
    B = 1 << 30

    def body(E):
        from nucs.problems.problem import Problem
        import nucs.propagators.propagators as P

        a, b, c, d, o, k = (z3.Int(x) for x in ("a", "b", "c", "d", "o", "k"))
        E.solver.add(a <= b, c <= d, a >= -B, b <= B, c >= -B, d <= B, o >= -2, o <= 2, k >= 1, k <= K)
        doms, idx, offs = build(*(SymInt(x) for x in (a, b, c, d, o)))
        pb = Problem(doms, idx, offs)
        pb.add_propagator((list(range(len(pb.dom_indices_lst))), P.ALG_DUMMY, []))
        snap = ([list(x) for x in pb.shr_domains_lst], list(pb.dom_indices_lst), list(pb.dom_offsets_lst), list(pb.propagators))

        def wit(m):
            return dict(harness="split", shape=shape, var=var, a=E.ev(m, a), b=E.ev(m, b), c=E.ev(m, c), d=E.ev(m, d), o=E.ev(m, o), k=E.ev(m, k))

        def viol(kind, m, **kw):
            v = dict(prop="C12", kind=kind, site="Problem.split", cls=None, **wit(m))
            v.update(kw)
            E.acc.violation(v)

        try:
            subs = pb.split(SymInt(k), var)
        except (IndexError, Obligation) as e:
            if E.check():
                viol("raises", E.model(), detail=f"{type(e).__name__}: {e}")
            return
        E.acc.count(f"parts:{len(subs)}")

        def same(x, y):
            return z3.BoolVal(True) if (isinstance(x, int) and isinstance(y, int) and x == y) else as_z3int(x) == as_z3int(y)

        bad_orig = []
        for i, (lo, hi) in enumerate(snap[0]):
            bad_orig += [z3.Not(same(pb.shr_domains_lst[i][0], lo)), z3.Not(same(pb.shr_domains_lst[i][1], hi))]
        bad_orig.append(z3.BoolVal(list(pb.dom_indices_lst) != snap[1] or len(pb.propagators) != len(snap[3])))
        bad_orig += [z3.Not(same(x, y)) for x, y in zip(pb.dom_offsets_lst, snap[2])]
        if E.query(OR(bad_orig)):
            viol("original-modified", E.model())
        if len(subs) == 0:
            if E.check():
                viol("no-sub-problem", E.model())
            return
        bad_other = []
        for s in subs:
            bad_other.append(z3.BoolVal(s is pb or list(s.dom_indices_lst) != snap[1] or len(s.shr_domains_lst) != len(snap[0]) or s.propagators != snap[3]))
            bad_other += [z3.Not(same(x, y)) for x, y in zip(s.dom_offsets_lst, snap[2])]
            for i, (lo, hi) in enumerate(snap[0]):
                if i != dom:
                    bad_other += [z3.Not(same(s.shr_domains_lst[i][0], lo)), z3.Not(same(s.shr_domains_lst[i][1], hi))]
        if E.query(OR(bad_other)):
            viol("differs-elsewhere", E.model())
        parts = [(as_z3int(s.shr_domains_lst[dom][0]), as_z3int(s.shr_domains_lst[dom][1])) for s in subs]
        t = z3.Int("t")
        inside = [z3.And(lo <= t, t <= hi) for lo, hi in parts]
        pz = lambda m: [[E.ev(m, x), E.ev(m, y)] for x, y in parts]  # noqa: E731
        if E.query(z3.And(a <= t, t <= b, z3.Not(OR(inside)))):
            m = E.model()
            viol("value-lost", m, parts=pz(m), t=E.ev(m, t))
        if E.query(z3.And(OR(inside), z3.Not(z3.And(a <= t, t <= b)))):
            m = E.model()
            viol("value-invented", m, parts=pz(m), t=E.ev(m, t))
        if E.query(OR([z3.And(inside[i], inside[j]) for i in range(len(parts)) for j in range(i + 1, len(parts))])):
            m = E.model()
            viol("overlap", m, parts=pz(m), t=E.ev(m, t))
        if E.query(OR([lo > hi for lo, hi in parts])):
            m = E.model()
            viol("empty-part", m, parts=pz(m))
        if E.check():
            m = E.model()
            E.acc.sample(dict(wit(m), parts=pz(m)))
            E.acc.valid(dict(wit(m), parts=pz(m)))

    return body
