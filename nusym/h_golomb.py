"""Golomb custom consistency algorithm (C20, C16): the pruning step of golomb_consistency_algorithm executed symbolically from
any state satisfying the reachable-state invariant of the search (marks before the first free one fixed and increasing, the
distances between fixed marks fixed, equal to the differences and pairwise different, bounds inside the initial ones), with the
bound consistency pass it ends with replaced by a stub: no Golomb ruler of the box is lost, every index stays inside its array."""
import z3

from . import core
from .core import DType, Obligation, SymInt, as_z3int
from .explore import register


@register("golomb_step")
def make(mark_nb, select=("C20",)):
    select = set(select)

    def body(E):
        import nucs.examples.golomb.golomb_problem as G
        from nucs.constants import PROBLEM_UNBOUND, STATS_MAX

        pb = G.GolombProblem(mark_nb, symmetry_breaking=False)
        nd = pb.shr_domain_nb
        init = [tuple(d) for d in pb.shr_domains_lst]
        saved = G.bound_consistency_algorithm
        G.bound_consistency_algorithm = lambda *a: PROBLEM_UNBOUND  # the pruning step is the subject; BC is C05/C08's
        try:
            idx = lambda i, j: int(G.index(mark_nb, i, j))  # noqa: E731
            lo = [z3.Int(f"lo{i}") for i in range(nd)]
            hi = [z3.Int(f"hi{i}") for i in range(nd)]
            t = [z3.Int(f"t{i}") for i in range(nd)]
            for i in range(nd):
                E.solver.add(lo[i] <= hi[i], lo[i] >= int(init[i][0]), hi[i] <= int(init[i][1]))
            ni = E.choose(mark_nb - 1, "first-free-mark")  # index of the first free decision variable (mark ni+1), 0..mark_nb-2
            mark = [z3.IntVal(0)] + [lo[idx(0, j)] for j in range(1, mark_nb)]
            fixed = []
            for j in range(1, ni + 1):
                E.solver.add(lo[idx(0, j)] == hi[idx(0, j)])
                fixed.append(idx(0, j))
            E.solver.add(lo[ni] < hi[ni])
            for i in range(1, ni + 1):
                for j in range(i + 1, ni + 1):
                    k = idx(i, j)
                    E.solver.add(lo[k] == hi[k], lo[k] == mark[j] - mark[i])
                    fixed.append(k)
            for j in range(1, ni):
                E.solver.add(mark[j] < mark[j + 1])
            if len(fixed) > 1:
                E.solver.add(z3.Distinct(*[lo[k] for k in fixed]))
            if not E.check():
                return
            stack = core.empty((2, nd, 2), DType("int32"))
            for i in range(nd):
                stack[0, i, 0] = SymInt(lo[i])
                stack[0, i, 1] = SymInt(hi[i])
            pb.init()
            nes = core.ones((2, pb.propagator_nb), DType("bool"))
            trig = core.zeros(pb.propagator_nb, DType("bool"))
            st = core.array([0], dtype=DType("uint8"))

            def wit(m):
                return dict(harness="golomb", mark_nb=mark_nb, first_free=ni, box=[[E.ev(m, lo[i]), E.ev(m, hi[i])] for i in range(nd)])

            try:
                G.golomb_consistency_algorithm(
                    core.zeros(STATS_MAX, DType("int64")), pb.algorithms, pb.var_bounds, pb.param_bounds, pb.dom_indices_arr, pb.dom_offsets_arr,
                    pb.props_dom_indices, pb.props_dom_offsets, pb.props_parameters, pb.triggers, stack, nes, core.zeros((2, 2), DType("uint16")), st, trig,
                    core.zeros(0, DType("int64")), core.array(list(range(nd)), dtype=DType("uint16")),
                )
            except Obligation as o:
                E.acc.count("obligation:" + o.kind)
                if o.model is not None:
                    p = "C16" if "C16" in select else "C20"
                    E.acc.violation(dict(prop=p, kind="golomb-pruning-index-out-of-range", site="golomb_consistency_algorithm", cls=None, detail=o.detail, benign_if_not_reproduced=True, modes=["jit"], **wit(o.model)))
                return
            E.acc.count(f"pruned:first_free={ni}")
            marks = [0] + [t[idx(0, j)] for j in range(1, mark_nb)]
            sem = [z3.Distinct(*t)] + [x >= 1 for x in t]
            for i in range(mark_nb - 1):
                for j in range(i + 1, mark_nb):
                    sem.append(t[idx(i, j)] == marks[j] - marks[i])
            inbox = z3.And([z3.And(lo[i] <= t[i], t[i] <= hi[i]) for i in range(nd)])
            after = z3.And([z3.And(as_z3int(stack[0, i, 0]) <= t[i], t[i] <= as_z3int(stack[0, i, 1])) for i in range(nd)])
            if "C20" in select and E.query(z3.And(inbox, z3.And(sem), z3.Not(after))):
                m = E.model()
                E.acc.violation(dict(prop="C20", kind="golomb-pruning-loses-a-ruler", site="golomb_consistency_algorithm", cls=None, benign_if_not_reproduced=True, modes=["jit"], ruler=[E.ev(m, x) for x in t], after=[[E.ev(m, as_z3int(stack[0, i, 0])), E.ev(m, as_z3int(stack[0, i, 1]))] for i in range(nd)], **wit(m)))
            if E.check():
                E.acc.sample(wit(E.model()))
        finally:
            G.bound_consistency_algorithm = saved

    return body
