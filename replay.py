#!/venv/bin/python
"""Replay of solver counterexamples (and per-path witnesses) against the REAL build: real NumPy + Numba, /repo's
current working tree.  Run with /venv/bin/python; NUMBA_DISABLE_JIT=1 selects the interpreted mode.

  replay.py <replay.json>            -> exit 0 + "REPRODUCED ..." if the recorded failure manifests on the real code,
                                        exit 3 + "NOT-REPRODUCED ..." otherwise
  replay.py --validate <batch.json>  -> runs every witness of the batch through the real code and compares with the result
                                        predicted by the symbolic execution; exit 0 iff all agree (prints the count)
"""
import itertools
import json
import os
import sys

sys.path.insert(0, os.environ.get("NUSYM_REPO", "/repo"))
sys.path.insert(0, os.path.dirname(os.path.abspath(__file__)))

import numpy as np  # noqa: E402

from nusym.pyrel import PYREL  # noqa: E402


def real_prop(alg, box, params):
    import nucs.propagators.propagators as P

    fn = P.COMPUTE_DOMAINS_FCTS[getattr(P, "ALG_" + alg.upper())]
    d = np.array(box, dtype=np.int32).reshape((-1, 2))
    st = int(fn(d, np.array(params, dtype=np.int32)))
    return st, d.tolist()


def in_box(t, box):
    return all(lo <= x <= hi for x, (lo, hi) in zip(t, box))


def hull(alg, box, params):
    R = PYREL[alg]
    sols = [t for t in itertools.product(*[range(lo, hi + 1) for lo, hi in box]) if R(list(t), params)]
    if not sols:
        return None
    return [[min(s[i] for s in sols), max(s[i] for s in sols)] for i in range(len(box))]


def affine_ref_py(box, params):
    n = len(box)
    rhs = params[-1]
    out = []
    for i in range(n):
        a = params[i]
        if a == 0:
            out.append(list(box[i]))
            continue
        mx = sum(max(params[j] * box[j][0], params[j] * box[j][1]) for j in range(n) if j != i)
        mn = sum(min(params[j] * box[j][0], params[j] * box[j][1]) for j in range(n) if j != i)
        N, M = rhs - mx, rhs - mn  # N <= a x_i <= M
        if a > 0:
            nmin, nmax = -((-N) // a), M // a
        else:
            nmin, nmax = -(M // (-a)), (-N) // (-a)
        out.append([max(box[i][0], nmin), min(box[i][1], nmax)])
    return out


def replay_prop(r):
    alg, box, params, kind = r["alg"], r["box"], r["params"], r["kind"]
    R = PYREL[alg]
    if kind == "budget":
        import subprocess

        code = (
            "import sys,os\nsys.path.insert(0,%r)\nsys.path.insert(0,%r)\nimport replay\nprint(replay.real_prop(%r,%r,%r))\n"
            % (os.environ.get("NUSYM_REPO", "/repo"), os.path.dirname(os.path.abspath(__file__)), alg, box, params)
        )
        try:
            subprocess.run([sys.executable, "-c", code], timeout=float(os.environ.get("NUSYM_WATCHDOG_S", "60")), capture_output=True, check=False)
        except subprocess.TimeoutExpired:
            return True, "the real function did not return within the watchdog (loop budget exceeded symbolically)"
        return False, "the real function returned"
    if kind in ("oob", "dtype"):
        try:
            st, out = real_prop(alg, box, params)
        except (IndexError, OverflowError, ValueError) as e:
            return True, f"real numpy raised {type(e).__name__}: {e}"
        return False, f"no exception in this mode (status={st}); out-of-range access is silent in compiled code"
    st, out = real_prop(alg, box, params)
    t = r.get("tuple")
    info = f"status={st} out={out}"
    if kind == "lost-tuple":
        return (in_box(t, box) and R(t, params) and (st == 0 or not in_box(t, out))), info
    if kind == "false-inconsistency":
        return (st == 0 and in_box(t, box) and R(t, params)), info
    if kind == "not-subset-or-empty":
        return (st != 0 and not all(b[0] <= o[0] <= o[1] <= b[1] for o, b in zip(out, box))), info
    g = [b[0] for b in box]
    if kind == "ground-violating-accepted":
        return (all(b[0] == b[1] for b in box) and not R(g, params) and st != 0), info
    if kind == "ground-satisfying-rejected":
        return (all(b[0] == b[1] for b in box) and R(g, params) and st == 0), info
    if kind == "collapsed-to-violating-point":
        return (st != 0 and all(o[0] == o[1] for o in out) and not R([o[0] for o in out], params)), info
    if kind == "premature-entailment":
        return (st == 2 and in_box(t, out) and not R(t, params)), info
    if kind == "not-hull":
        h = hull(alg, box, params)
        if st == 0:
            return h is not None, info + f" hull={h}"
        return (h is None or h != out), info + f" hull={h}"
    if kind in ("second-call-fails", "not-idempotent"):
        if st == 0:
            return False, info
        st2, out2 = real_prop(alg, out, params)
        if kind == "second-call-fails":
            return st2 == 0, info + f" second={st2}"
        return (st2 != 0 and out2 != out), info + f" second={st2} {out2}"
    if kind == "affine-eq-ref-mismatch":
        ref = affine_ref_py(box, params)
        empty = any(a > b for a, b in ref)
        if st == 0:
            gv = all(a == b for a, b in ref) and not R([a for a, _ in ref], params)
            return not (empty or gv), info + f" ref={ref}"
        return (empty or ref != out), info + f" ref={ref}"
    raise SystemExit(f"unknown kind {kind}")


def heur_failures(r):
    """runs the real value heuristic + backtrack on a concrete stack and returns the set of C09/C07 failure kinds"""
    import nucs.heuristics.heuristics as H
    import nucs.solvers.choice_points as CP

    TABLES = [[[1, 2], [4, 7]], [[4, 3], [2, 1]], [[7, 0], [0, 7]]]
    hname, top, d, height, a, b = r["heuristic"], r["top"], r["dom_idx"], r["height"], r["a"], r["b"]
    ND, NP = r.get("ND", 2), r.get("NP", 2)
    rng = np.random.RandomState(12345)
    stack = rng.randint(-50, 50, size=(height, ND, 2)).astype(np.int32)
    ne = rng.randint(0, 2, size=(height, NP)).astype(bool)
    du = rng.randint(0, 8, size=(height, 2)).astype(np.uint16)
    du[:, 0] = 7 + rng.randint(0, 50, size=height)  # stale records point nowhere
    st = np.array([top], dtype=np.uint8)
    stack[top, d] = (a, b)
    params = np.array(r["costs"], dtype=np.int64) if "costs" in r else np.array([[]], dtype=np.int64)
    before, ne_before, du_before = stack.copy(), ne.copy(), du.copy()
    fails = set()
    events = int(H.DOM_HEURISTIC_FCTS[getattr(H, "DOM_HEURISTIC_" + hname.upper())](params, stack, ne, du, st, d))
    newtop = int(st[0])
    if newtop == top:
        return {"no-choice-point-created"}, dict(events=events)
    levels = list(range(top, newtop + 1))
    ranges = [(int(stack[l, d, 0]), int(stack[l, d, 1])) for l in levels]
    vals = []
    for lo, hi in ranges:
        if lo > hi:
            fails.add("empty-part")
        vals += list(range(lo, hi + 1))
    if set(range(a, b + 1)) - set(vals):
        fails.add("value-lost")
    if set(vals) - set(range(a, b + 1)):
        fails.add("value-invented")
    if len(vals) != len(set(vals)):
        fails.add("overlap")
    for l in levels:
        for dd in range(ND):
            if dd != d and (stack[l, dd] != before[top, dd]).any():
                fails.add("other-domain-touched")
        if (ne[l] != ne_before[top]).any():
            fails.add("flags-not-copied")
    for l in range(top):
        if (stack[l] != before[l]).any() or (ne[l] != ne_before[l]).any() or (du[l] != du_before[l]).any():
            fails.add("lower-level-touched")

    def need(lo, hi):
        return (1 if lo != a else 0) | (2 if hi != b else 0) | (4 if lo == hi else 0)

    if need(*ranges[-1]) & ~events:
        fails.add("event-not-announced")
    recs = {}
    for l in levels[:-1]:
        recs[l] = int(du[l, 1])
        if int(du[l, 0]) != d or (need(int(stack[l, d, 0]), int(stack[l, d, 1])) & ~recs[l]):
            fails.add("alternative-event-not-recorded")
    ne[newtop] = ne[newtop] & (rng.randint(0, 2, size=NP).astype(bool))
    saved_dom, saved_ne = stack.copy(), ne.copy()
    triggers = np.array(TABLES[r.get("table", 0)], dtype=np.uint8)
    stats = np.zeros(13, dtype=np.int64)
    cur = newtop
    while cur > top:
        trig = np.zeros(NP, dtype=bool)
        if int(du[cur - 1, 0]) >= ND:
            fails.add("alternative-record-unusable-on-backtrack")
            break
        ok = CP.backtrack(stats, ne, du, st, trig, triggers)
        cur -= 1
        want = [bool(saved_ne[cur, p]) and (int(triggers[d, p]) & recs[cur]) != 0 for p in range(NP)]
        if not ok or int(st[0]) != cur or (stack[cur] != saved_dom[cur]).any() or (ne[cur] != saved_ne[cur]).any() or list(map(bool, trig)) != want:
            fails.add("backtrack-does-not-restore")
    if int(stats[9]) != newtop - top:
        fails.add("backtrack-count")
    return fails, dict(events=events, ranges=ranges, recorded=recs)


def replay_heur(r):
    kind = r["kind"]
    if kind in ("oob", "dtype"):
        try:
            fails, info = heur_failures(r)
        except (IndexError, OverflowError, ValueError) as e:
            return True, f"real numpy raised {type(e).__name__}: {e}"
        return False, f"no exception; failures={sorted(fails)}"
    fails, info = heur_failures(r)
    return kind in fails, f"failures={sorted(fails)} {info}"


SPLIT_SHAPES = {
    "own1": (lambda a, b, c, d, o: ([(a, b)], None, None), 0, 0),
    "own2_v0": (lambda a, b, c, d, o: ([(a, b), (c, d)], None, None), 0, 0),
    "own2_v1": (lambda a, b, c, d, o: ([(c, d), (a, b)], None, None), 1, 1),
    "shared_v1": (lambda a, b, c, d, o: ([(a, b)], [0, 0], [0, o]), 1, 0),
    "shared3_v2": (lambda a, b, c, d, o: ([(c, d), (a, b)], [0, 1, 1], [0, 0, o]), 2, 1),
    "crossed_v0": (lambda a, b, c, d, o: ([(c, d), (a, b)], [1, 0], [o, 0]), 0, 1),
}


def split_real(r):
    from nucs.problems.problem import Problem

    build, var, dom = SPLIT_SHAPES[r["shape"]]
    doms, idx, offs = build(r["a"], r["b"], r["c"], r["d"], r["o"])
    pb = Problem(doms, idx, offs)
    return pb, pb.split(r["k"], var), dom


def solve_with_watchdog(doms, idx, offs, seconds=20):
    import subprocess

    code = (
        "import sys\nsys.path.insert(0,%r)\nfrom nucs.problems.problem import Problem\nfrom nucs.solvers.backtrack_solver import BacktrackSolver\n"
        "s=BacktrackSolver(Problem(%r,%r,%r),log_level='CRITICAL')\nprint('SOLUTIONS',[x.tolist() for x in s.find_all()])\n"
        % (os.environ.get("NUSYM_REPO", "/repo"), doms, idx, offs)
    )
    try:
        p = subprocess.run([sys.executable, "-c", code], timeout=seconds, capture_output=True, text=True)
    except subprocess.TimeoutExpired:
        return "timeout"
    return p.stdout.strip().splitlines()[-1] if p.stdout.strip() else "error: " + p.stderr[-300:]


def replay_split(r):
    kind = r["kind"]
    a, b = r["a"], r["b"]
    try:
        pb, subs, dom = split_real(r)
    except Exception as e:  # noqa
        return kind == "raises", f"split raised {type(e).__name__}: {e}"
    parts = [list(s.shr_domains_lst[dom]) for s in subs]
    vals = [v for lo, hi in parts for v in range(lo, hi + 1)]
    fails = set()
    if not subs:
        fails.add("no-sub-problem")
    if set(range(a, b + 1)) - set(vals):
        fails.add("value-lost")
    if set(vals) - set(range(a, b + 1)):
        fails.add("value-invented")
    if len(vals) != len(set(vals)):
        fails.add("overlap")
    info = f"parts={parts}"
    if any(lo > hi for lo, hi in parts):
        # an empty part is a failure only if the solver cannot digest it ("every sub-problem can be solved in finite time")
        for s in subs:
            lo, hi = s.shr_domains_lst[dom]
            if lo > hi:
                out = solve_with_watchdog([tuple(x) for x in s.shr_domains_lst], s.dom_indices_lst, s.dom_offsets_lst)
                info += f" solving the empty part: {out}"
                if out != "SOLUTIONS []":
                    fails.add("empty-part")
                break
    for s in subs:
        for i, x in enumerate(s.shr_domains_lst):
            if i != dom and list(x) != list(pb.shr_domains_lst[i]):
                fails.add("differs-elsewhere")
    return kind in fails, f"failures={sorted(fails)} {info}"


def validate_split(w):
    pb, subs, dom = split_real(w)
    parts = [list(s.shr_domains_lst[dom]) for s in subs]
    return parts == w["parts"], f"real parts={parts}"


REDUCER_SCRIPT = r"""
import os, sys
sys.path.insert(0, %(repo)r)
from nucs.problems.problem import Problem
from nucs.solvers.backtrack_solver import BacktrackSolver
from nucs.solvers.multiprocessing_solver import MultiprocessingSolver

class Dying(BacktrackSolver):
    die_at = None
    def _q(self, q):
        outer = self
        class Q:
            n = 0
            def put(s, msg):
                if outer.die_at is not None and s.n == outer.die_at:
                    q.close(); q.join_thread()
                    if outer.exit_code < 0:
                        os.kill(os.getpid(), -outer.exit_code)
                    os._exit(outer.exit_code)
                q.put(msg); s.n += 1
        return Q()
    def solve_and_queue(self, idx, q):
        time.sleep(self.delay)
        super().solve_and_queue(idx, self._q(q))
    def optimize_and_queue(self, v, f, idx, q):
        time.sleep(self.delay)
        super().optimize_and_queue(v, f, idx, self._q(q))

import time
mode, dead_at, nsol, delays, prior, exitcodes = %(mode)r, %(dead_at)r, %(nsol)r, %(delays)r, %(prior)r, %(exitcodes)r
solvers = []
for w, k in enumerate(nsol):
    # worker w enumerates k solutions: one variable with k values (k = 0: an inconsistent constraint)
    from nucs.propagators.propagators import ALG_AFFINE_LEQ
    pb = Problem([(10 * w, 10 * w + max(k, 1) - 1)])
    if k == 0:
        pb.add_propagator(([0], ALG_AFFINE_LEQ, [1, -1000]))
    s = Dying(pb, log_level="CRITICAL")
    s.wanted_die_at = dead_at[w] if dead_at[w] <= k else None
    s.exit_code = int(exitcodes.get(str(w), 1))  # how a dying worker ends: 1 crash / uncaught exception, -9 killed, 0 SystemExit
    s.wanted_delay = delays[w]
    s.die_at, s.delay = None, 0.0
    solvers.append(s)
mp = MultiprocessingSolver(solvers, log_level="CRITICAL")
if prior:
    # a first, healthy call on the same MultiprocessingSolver object
    if prior == "solve_abandoned":
        g_ = mp.solve(); print("FIRST", next(g_, None)); g_.close(); time.sleep(1.0)
    else:
        print("FIRST", sorted(x.tolist() for x in mp.solve()) if prior == "solve" else mp.minimize(0))
for s in solvers:
    s.die_at, s.delay = s.wanted_die_at, s.wanted_delay
try:
    if mode == "solve":
        print("RESULT", sorted(x.tolist() for x in mp.solve()))
    elif mode == "minimize":
        print("RESULT", mp.minimize(0))
    else:
        print("RESULT", mp.maximize(0))
except Exception as e:
    print("RAISED", type(e).__name__, e)
"""


STATS_SCRIPT = r"""
import sys
sys.path.insert(0, %(repo)r)
from nucs.problems.problem import Problem
from nucs.propagators.propagators import ALG_ALLDIFFERENT, ALG_AFFINE_LEQ
from nucs.solvers.backtrack_solver import BacktrackSolver
from nucs.solvers.multiprocessing_solver import MultiprocessingSolver
from nucs.solvers.consistency_algorithms import CONSISTENCY_ALG_BC, CONSISTENCY_ALG_SHAVING
bad = []
for alg in (CONSISTENCY_ALG_BC, CONSISTENCY_ALG_SHAVING):
    def mk():
        pb = Problem([(0, 3)] * 4)
        pb.add_propagator(([0, 1, 2, 3], ALG_ALLDIFFERENT, []))
        pb.add_propagator(([0, 3], ALG_AFFINE_LEQ, [1, -1, -1]))
        return pb
    parts = mk().split(3, 0)
    seq = []
    for p in mk().split(3, 0):
        s = BacktrackSolver(p, consistency_alg_idx=alg, log_level="CRITICAL"); s.solve_all(); seq.append(s.get_statistics())
    mp = MultiprocessingSolver([BacktrackSolver(p, consistency_alg_idx=alg, log_level="CRITICAL") for p in parts], log_level="CRITICAL")
    mp.solve_all()
    agg = mp.get_statistics()
    for k in agg:
        want = max(s[k] for s in seq) if k == "SOLVER_CHOICE_DEPTH" else sum(s[k] for s in seq)
        if agg[k] != want:
            bad.append((alg, k, agg[k], want))
print("STATS", bad)
"""


def replay_reducer(r):
    import subprocess

    if r["kind"] in ("statistics-not-the-sum-of-final-vectors", "statistics-keys", "get_statistics-raises"):
        p = subprocess.run([sys.executable, "-c", STATS_SCRIPT % dict(repo=os.environ.get("NUSYM_REPO", "/repo"))], capture_output=True, text=True, timeout=300)
        line = [l for l in p.stdout.splitlines() if l.startswith("STATS ")]
        if not line:
            return True, "get_statistics failed: " + (p.stdout + p.stderr)[-300:]
        return line[-1] != "STATS []", "aggregated vs sum of the sequential runs of the same parts (alg, label, aggregated, expected): " + line[-1][6:300]

    if r.get("prior") == "solve_abandoned":
        # the abandoned first enumeration needs something to leave behind: every worker enumerates at least one solution (in both calls:
        # the same solver objects are used)
        r = dict(r, nsol=[max(1, n) for n in r["nsol"]])
    nw = len(r["nsol"])
    healthy_kind = r["kind"] in ("raises-on-healthy-run", "returned-before-all-workers-finished", "none-although-solutions-exist", "not-optimal", "solutions-not-the-multiset-union")
    # a healthy run in which the first worker finishes at once and the others stay silent for several queue time-outs
    delays = [0.0] + [3.5] * (nw - 1) if healthy_kind else [0.0] * nw
    dead_at = [10**6] * nw if healthy_kind else r["dead_at"]
    code = REDUCER_SCRIPT % dict(repo=os.environ.get("NUSYM_REPO", "/repo"), mode=r["mode"], dead_at=dead_at, nsol=[max(0, n) for n in r["nsol"]], delays=delays, prior=r.get("prior"), exitcodes=r.get("exitcodes") or {})
    import signal

    proc = subprocess.Popen([sys.executable, "-c", code], stdout=subprocess.PIPE, stderr=subprocess.STDOUT, text=True, start_new_session=True)
    try:
        out, _ = proc.communicate(timeout=float(os.environ.get("NUSYM_WATCHDOG_S", "20")) + (20 if r.get("prior") else 0))
    except subprocess.TimeoutExpired:
        os.killpg(proc.pid, signal.SIGKILL)
        proc.wait()
        return r["kind"] == "blocks-forever", "the real MultiprocessingSolver call did not return within the watchdog"
    out = out.strip()[-400:]
    if healthy_kind:
        nsol = [max(0, n) for n in r["nsol"]]
        if r["kind"] == "raises-on-healthy-run":
            return "RAISED" in out, f"healthy run, workers 1.. start after 3.5 s: {out}"
        if r["mode"] == "solve":
            want = sorted([[10 * w + j] for w, k in enumerate(nsol) for j in range(k)])
            return ("RESULT " + str(want)) not in out, f"expected {want}: {out}"
        vals = [10 * w + j for w, k in enumerate(nsol) for j in range(k)]
        want = "None" if not vals else str([min(vals) if r["mode"] == "minimize" else max(vals)])
        return ("RESULT " + want) not in out.replace("[ ", "["), f"expected {want}: {out}"
    return False, f"the call terminated: {out}"


STACK_SCRIPT = r"""
import sys
sys.path.insert(0, %(repo)r)
from nucs.problems.problem import Problem
from nucs.solvers.backtrack_solver import BacktrackSolver
import nucs.heuristics.heuristics as H
from nucs.solvers.consistency_algorithms import CONSISTENCY_ALG_BC, CONSISTENCY_ALG_SHAVING
height, nvars, heur, shaving = %(height)r, %(nvars)r, %(heur)r, %(shaving)r
try:
    width = 2 if heur in ("mid_value", "min_cost") else 1
    widths = %(widths)r or [width] * nvars
    pb = Problem([(0, w_) for w_ in widths])
    if %(constrained)r:
        from nucs.propagators.propagators import ALG_AFFINE_LEQ
        for k in range(1, nvars):
            pb.add_propagator(([k, 0], ALG_AFFINE_LEQ, [1, 2, 2]))  # x_k + 2 x_0 <= 2: first solution in DFS order is (0, 1, 1, ...)
    s = BacktrackSolver(pb, consistency_alg_idx=CONSISTENCY_ALG_SHAVING if shaving else CONSISTENCY_ALG_BC,
                        dom_heuristic_idx=getattr(H, "DOM_HEURISTIC_" + heur.upper()), dom_heuristic_params=[[2, 1, 2]] * nvars if heur == "min_cost" else [[]],
                        stack_max_height=height, log_level="CRITICAL")
    first = next(iter(s.solve()))
    print("RETURNED first solution", first.tolist()[:8], "... depth", s.get_statistics()["SOLVER_CHOICE_DEPTH"], "EXPECTED-FIRST" if (not %(constrained)r or first.tolist() == [0] + [1] * (nvars - 1)) else "WRONG-FIRST")
except Exception as e:
    print("RAISED", type(e).__name__, e)
"""


def replay_stack(r):
    """public-API scenario for a capacity finding: a chain of free 0/1 variables that needs more levels than the stack has
    (or than the pointer type can count); reproduced iff the real solver does NOT raise"""
    import signal
    import subprocess

    height = r["height"]
    nvars = r.get("nvars") or (height + 1)
    heur, shaving, widths, constrained = r.get("heuristic", "min_value"), bool(r.get("shaving")), None, False
    if r["kind"] in ("pointer-cannot-represent-top-level", "ctor-dtype") or height > 256:
        # the deepest search the guard lets through: an odd level, then two levels per choice, then the shaving probe
        nvars = 130
        heur, shaving, widths, constrained = "mid_value", True, [1] + [2] * (nvars - 1), True
    code = STACK_SCRIPT % dict(repo=os.environ.get("NUSYM_REPO", "/repo"), height=height, nvars=nvars, heur=heur, shaving=shaving, widths=widths, constrained=constrained)
    proc = subprocess.Popen([sys.executable, "-c", code], stdout=subprocess.PIPE, stderr=subprocess.STDOUT, text=True, start_new_session=True)
    try:
        out, _ = proc.communicate(timeout=float(os.environ.get("NUSYM_WATCHDOG_S", "60")))
    except subprocess.TimeoutExpired:
        os.killpg(proc.pid, signal.SIGKILL)
        proc.wait()
        return True, f"height={height} nvars={nvars}: no error raised, the call did not return within the watchdog"
    out = out.strip()[-300:]
    if "WRONG-FIRST" in out:
        return True, f"height={height} nvars={nvars}: no error raised and the first solution is not the first one in search order: {out}"
    if "RAISED" in out:
        # in interpreted mode numpy's own bounds check raises IndexError: that is not the engine reporting the problem
        if "IndexError" in out or "OverflowError" in out:
            return True, f"height={height} nvars={nvars}: only numpy's bounds check fired (absent from compiled code): {out}"
        return False, f"height={height} nvars={nvars}: {out}"
    return True, f"height={height} nvars={nvars}: no error raised (rc={proc.returncode}): {out}"


CONS = {"bc": "CONSISTENCY_ALG_BC", "shaving": "CONSISTENCY_ALG_SHAVING"}
VARH = {"first": "VAR_HEURISTIC_FIRST_NOT_INSTANTIATED", "smallest": "VAR_HEURISTIC_SMALLEST_DOMAIN", "greatest": "VAR_HEURISTIC_GREATEST_DOMAIN", "regret": "VAR_HEURISTIC_MAX_REGRET"}
DOMH = {"min": "DOM_HEURISTIC_MIN_VALUE", "max": "DOM_HEURISTIC_MAX_VALUE", "split": "DOM_HEURISTIC_SPLIT_LOW", "mid": "DOM_HEURISTIC_MID_VALUE", "cost": "DOM_HEURISTIC_MIN_COST"}


def build_real(w):
    import nucs.heuristics.heuristics as H
    import nucs.propagators.propagators as P
    import nucs.solvers.consistency_algorithms as CA
    from nucs.problems.problem import Problem
    from nucs.solvers.backtrack_solver import BacktrackSolver

    pb = Problem([tuple(d) for d in w["doms"]], list(w["dom_indices"]), list(w["offsets"]))
    order = w.get("order") or list(range(len(w["props"])))
    for pi in order:
        pv, alg, params = w["props"][pi]
        pb.add_propagator((list(pv), getattr(P, "ALG_" + alg.upper()), list(params)))
    cfg = w.get("cfg") or {}
    nd = len(w["doms"])
    kw = dict(consistency_alg_idx=getattr(CA, CONS[cfg.get("cons", "bc")]), var_heuristic_idx=getattr(H, VARH[cfg.get("varh", "first")]), dom_heuristic_idx=getattr(H, DOMH[cfg.get("domh", "min")]), stack_max_height=cfg.get("height", 4 * nd + 8), log_level="CRITICAL")
    if cfg.get("decision") is not None:
        kw["decision_domains"] = list(cfg["decision"])
    if "var_costs" in w:
        kw["var_heuristic_params"] = w["var_costs"]
    if "dom_costs" in w:
        kw["dom_heuristic_params"] = w["dom_costs"]
    return pb, kw, BacktrackSolver


def real_history(pb, kw, history):
    import nucs.heuristics.heuristics as H
    import nucs.propagators.propagators as P
    import nucs.solvers.consistency_algorithms as CA
    from nucs.solvers.backtrack_solver import BacktrackSolver

    for h in history or []:
        if h == "other_solver_abandoned":
            it = BacktrackSolver(pb, **kw).solve()
            for _ in range(2):
                try:
                    next(it)
                except StopIteration:
                    break
        elif h == "other_solver_exhausted":
            for _ in BacktrackSolver(pb, **kw).solve():
                pass
        elif h == "minimize_first":
            BacktrackSolver(pb, **kw).minimize(0)
        elif h == "register_extras":
            from nucs.propagators.dummy_propagator import compute_domains_dummy, get_complexity_dummy, get_triggers_dummy

            P.register_propagator(get_triggers_dummy, get_complexity_dummy, compute_domains_dummy)
            H.register_dom_heuristic(H.DOM_HEURISTIC_FCTS[0])
            H.register_var_heuristic(H.VAR_HEURISTIC_FCTS[0])
            CA.register_consistency_algorithm(CA.CONSISTENCY_ALG_FCTS[0])
        elif h == "split":
            pb.split(2, 0)
        elif h == "then_split_part0":
            pass
        elif h == "init_twice":
            pb.init()
        elif h == "sibling_problem":
            from nucs.problems.problem import Problem

            sib = Problem([(0, 1)] * len(pb.shr_domains_lst), list(pb.dom_indices_lst), [0] * len(pb.dom_indices_lst))
            for pv, alg, params in pb.propagators:
                if alg == P.ALG_RELATION:
                    sib.add_propagator((list(pv), alg, [0] * len(pv)))
                elif alg == P.ALG_ELEMENT_IV:
                    sib.add_propagator((list(pv), alg, [0]))
                elif alg == P.ALG_GCC:
                    sib.add_propagator((list(pv), alg, [0, 0, len(pv)]))
                else:
                    sib.add_propagator((list(pv), alg, list(params)))
            it = BacktrackSolver(sib, **kw).solve()
            try:
                next(it)
            except StopIteration:
                pass


def run_real(w, limit=10000):
    pb, kw, BacktrackSolver = build_real(w)
    real_history(pb, kw, w.get("history"))
    if "then_split_part0" in (w.get("history") or []):
        pb = pb.split(2, 0)[0]
    s = BacktrackSolver(pb, **kw)
    mode = w.get("mode", "solve").replace("_q", "")
    if mode == "solve":
        sols, kept = [], []
        for x in s.solve():
            sols.append([int(v) for v in x])
            kept.append(x)
            if len(sols) > limit or (w.get("partial") is not None and len(sols) >= w["partial"]):
                break
        if w.get("kind") == "yielded-solution-changed-afterwards":
            return [[int(v) for v in x] for x in kept] != sols, s.get_statistics()
        return sols, s.get_statistics()
    best = s.minimize(w["objective"]) if mode == "minimize" else s.maximize(w["objective"])
    return ([] if best is None else [[int(v) for v in best]]), s.get_statistics()


def semantic_solutions(w):
    """independent enumeration of the cartesian product of the shared domains"""
    out = []
    for x in itertools.product(*[range(lo, hi + 1) for lo, hi in w["doms"]]):
        vals = [x[d] + o for d, o in zip(w["dom_indices"], w["offsets"])]
        if all(PYREL[alg]([vals[v] for v in pv], params) for pv, alg, params in w["props"]):
            out.append(vals)
    return out


def _run_real_watchdog(w, seconds, fill=None):
    import signal
    import subprocess
    import tempfile

    with tempfile.NamedTemporaryFile("w", suffix=".json", delete=False) as f:
        json.dump(w, f)
        path = f.name
    code = "import sys,json\nsys.path.insert(0,%r)\nimport replay\nreplay._patch_empty()\nw=json.load(open(%r))\nprint('RESULT', json.dumps(replay.run_real(w)))\n" % (os.path.dirname(os.path.abspath(__file__)), path)
    env = dict(os.environ)
    if fill:
        env["NUSYM_EMPTY_FILL"] = fill
        env["NUMBA_DISABLE_JIT"] = "1"
    proc = subprocess.Popen([sys.executable, "-c", code], stdout=subprocess.PIPE, stderr=subprocess.PIPE, text=True, start_new_session=True, env=env)
    try:
        out, err = proc.communicate(timeout=seconds)
    except subprocess.TimeoutExpired:
        os.killpg(proc.pid, signal.SIGKILL)
        proc.wait()
        os.unlink(path)
        return "timeout", None
    os.unlink(path)
    for line in out.splitlines():
        if line.startswith("RESULT "):
            return "ok", json.loads(line[7:])
    return "error", (out + err)[-400:]


def replay_solve(r):
    kind = r["kind"]
    st, res = _run_real_watchdog(r, float(os.environ.get("NUSYM_WATCHDOG_S", "30")))
    if kind == "budget":
        return st == "timeout", f"real run: {st}"
    if st == "timeout" and not kind.startswith("obligation"):
        return False, "real run timed out"
    if kind.startswith("obligation"):
        # the symbolic run hit an index/dtype obligation: on the real build this is an exception (interpreted), a hang or garbage
        if st == "timeout":
            return True, "real run did not return within the watchdog"
        if st == "error":
            return True, f"real run failed: {res}"
        sols, stats = res
        sem = semantic_solutions(r)
        return any(s_ not in sem for s_ in sols), f"real={sols[:4]} semantic={sem[:4]}"
    if st == "error":
        return False, f"real run failed: {res}"
    if kind == "yielded-solution-changed-afterwards":
        return res is not None and res[0] is True, f"arrays yielded by solve() compared at the end with their value when yielded: changed={res and res[0]}"
    sols, stats = res
    sem = semantic_solutions(r)
    info = f"real={sols[:6]} semantic={sem[:6]}"
    mode = r.get("mode", "solve").replace("_q", "")
    if kind == "reported-vector-is-not-a-solution":
        return any(s not in sem for s in sols), info
    if kind == "solution-yielded-twice" or kind == "more-solutions-than-assignments":
        return len(sols) != len({tuple(s) for s in sols}), info
    if kind == "solution-missing":
        return any(s not in sols for s in sem), info
    if kind == "none-although-feasible":
        return (not sols) and bool(sem), info
    if kind == "not-optimal":
        if not sols:
            return False, info
        o = r["objective"]
        best = min(s[o] for s in sem) if mode == "minimize" else max(s[o] for s in sem)
        return sols[0][o] != best, info + f" optimum={best}"
    if kind.startswith("counter-mismatch") or kind.startswith("obligation"):
        return False, "needs the interpreted ghost run (see replay_stats)"
    return False, f"unknown kind {kind}"


def validate_solve(w):
    sols, stats = run_real(w)
    ok = sols == w["solutions"]
    if ok and "stats" in w:
        ok = {k: int(v) for k, v in stats.items()} == w["stats"]
    return ok, f"real: solutions={sols} stats={stats}"


def replay_varheur(r):
    import nucs.heuristics.heuristics as H

    doms = r["doms"]
    stack = np.zeros((3, len(doms), 2), dtype=np.int32)
    stack[r["top"]] = doms
    params = np.array(r["costs"], dtype=np.int64) if "costs" in r else np.array([[]], dtype=np.int64)
    fn = H.VAR_HEURISTIC_FCTS[getattr(H, "VAR_HEURISTIC_" + r["site"].upper())]
    res = int(fn(params, np.array(r["decision"], dtype=np.uint16), stack, np.array([r["top"]], dtype=np.uint8)))
    free = [d for d in r["decision"] if doms[d][0] < doms[d][1]]
    if r["kind"] == "no-variable-selected-although-one-is-free":
        return bool(free) and res not in free, f"returned {res}, free decision domains {free}"
    return (not free) and res != -1, f"returned {res}"


def replay_lemma(r):
    import nucs.propagators.propagators as P

    lemma, kind = r["lemma"], r["kind"]
    if lemma in ("trigger", "mono"):
        alg, box, box2, params = r["alg"], r["box"], r["box2"], r["params"]
        st, out = real_prop(alg, box, params)
        st2, out2 = real_prop(alg, box2, params)
        info = f"p(B)=({st},{out}) p(B')=({st2},{out2})"
        sub = all(b[0] <= c[0] <= c[1] <= b[1] for b, c in zip(box, box2))
        if lemma == "mono":
            if kind == "fails-on-box-but-not-on-sub-box":
                return sub and st == 0 and st2 != 0, info
            return sub and st != 0 and st2 != 0 and any(o2[0] < o[0] or o2[1] > o[1] for o, o2 in zip(out, out2)), info
        ai = getattr(P, "ALG_" + alg.upper())
        mask = [int(x) for x in P.GET_TRIGGERS_FCTS[ai](len(box), np.array(params, dtype=np.int32))]
        unwatched_only = sub
        for m, b, c in zip(mask, box, box2):
            if (m & 1 and c[0] != b[0]) or (m & 2 and c[1] != b[1]) or (m & 4 and c[0] == c[1] and b[0] != b[1]):
                unwatched_only = False
        stable = st != 0 and out == box
        info += f" mask={mask} only-unwatched-bounds-moved={unwatched_only} stable-on-B={stable}"
        if kind == "unwatched-bound-change-makes-it-fail":
            return unwatched_only and stable and st2 == 0, info
        if alg == "no_sub_cycle":
            ch = any(c[0] == c[1] and o != c for c, o in zip(box2, out2))
        else:
            ch = st2 != 0 and out2 != box2
        return unwatched_only and stable and ch, info
    if lemma == "transl":
        alg, box, params, c = r["alg"], r["box"], r["params"], r["c"]
        n = len(box)
        if alg in ("affine_eq", "affine_leq", "affine_geq"):
            p2 = params[:-1] + [params[-1] + c * sum(params[:-1])]
        elif alg == "relation":
            p2 = [p + c for p in params]
        elif alg == "exactly_eq":
            p2 = [params[0] + c, params[1]]
        elif alg == "gcc":
            p2 = [params[0] + c] + params[1:]
        else:
            p2 = params
        st, out = real_prop(alg, box, params)
        st2, out2 = real_prop(alg, [[a + c, b + c] for a, b in box], p2)
        info = f"p(B)=({st},{out}) p(B+c)=({st2},{out2})"
        if kind == "status-changes-under-translation":
            return st != st2, info
        return st == st2 and st != 0 and out2 != [[a + c, b + c] for a, b in out], info
    if lemma == "bcstep":
        # one iteration of the real loop (interpreted mode: pop_propagator is cut at its second call) from the recorded state
        if not os.environ.get("NUMBA_DISABLE_JIT"):
            return False, "step-level probes need the interpreted mode"
        import nucs.solvers.bound_consistency_algorithm as BCA

        pb, kw, BacktrackSolver = build_real(r)
        s = BacktrackSolver(pb, **kw)
        top = int(r.get("top", 0))
        nd, NP = len(r["doms"]), int(pb.propagator_nb)
        s.stacks_top[0] = top
        for d in range(nd):
            s.shr_domains_stack[top, d] = r["doms"][d]
        s.triggered_propagators[:] = np.array(r["queue"], dtype=bool)
        s.not_entailed_propagators_stack[top, :] = np.array(r["enabled"], dtype=bool)
        calls, popped, real_pop = [0], [None], BCA.pop_propagator

        class _Cut(Exception):
            pass

        def pop(tp, prev):
            calls[0] += 1
            if calls[0] == 2:
                raise _Cut()
            popped[0] = real_pop(tp, prev)
            return popped[0]

        BCA.pop_propagator = pop
        status = None
        try:
            status = BCA.bound_consistency_algorithm(s.statistics, pb.algorithms, pb.var_bounds, pb.param_bounds, pb.dom_indices_arr, pb.dom_offsets_arr, pb.props_dom_indices, pb.props_dom_offsets, pb.props_parameters, pb.triggers, s.shr_domains_stack, s.not_entailed_propagators_stack, s.dom_update_stack, s.stacks_top, s.triggered_propagators, np.empty(0), s.decision_domains)
        except _Cut:
            pass
        finally:
            BCA.pop_propagator = real_pop
        if status == 0:
            return False, "the step reports inconsistency"
        missing = []
        for d in range(nd):
            lo, hi = r["doms"][d]
            a, b = (int(x) for x in s.shr_domains_stack[top, d])
            for p in range(NP):
                if p == popped[0] or not s.not_entailed_propagators_stack[top, p] or s.triggered_propagators[p]:
                    continue
                msk = int(pb.triggers[d, p])
                if (msk & 1 and a > lo) or (msk & 2 and b < hi) or (msk & 4 and (a > lo or b < hi) and a == b):
                    missing.append((d, p, [lo, hi], [a, b], msk))
        return bool(missing), f"ran propagator {popped[0]}; (domain, watcher, before, after, mask) not woken: {missing}"
    if lemma == "init":
        pb, kw, _ = build_real(r)
        posted = list(pb.propagators)
        pb.init()
        fails = set()
        for q, prop in enumerate(pb.propagators):
            pv, alg, params = prop
            vs, ve = int(pb.var_bounds[q, 0]), int(pb.var_bounds[q, 1])
            ps, pe = int(pb.param_bounds[q, 0]), int(pb.param_bounds[q, 1])
            if ve - vs != len(pv) or pe - ps != len(params) or int(pb.algorithms[q]) != alg:
                fails.add("bounds-or-algorithm-mismatch")
                continue
            if [int(x) for x in pb.props_dom_indices[vs:ve]] != [r["dom_indices"][v] for v in pv] or [int(x) for x in pb.props_dom_offsets[vs:ve, 0]] != [r["offsets"][v] for v in pv] or [int(x) for x in pb.props_parameters[ps:pe]] != list(params):
                fails.add("flattened-slices-differ-from-posted-data")
            declared = P.GET_TRIGGERS_FCTS[alg](len(pv), np.array(params, dtype=np.int32))
            want = {}
            for k, v in enumerate(pv):
                d = r["dom_indices"][v]
                want[d] = want.get(d, 0) | int(declared[k])
            for d in range(len(r["doms"])):
                if int(pb.triggers[d, q]) != want.get(d, 0):
                    fails.add("trigger-mask-is-not-the-union-of-declared-masks")
        cx = [P.GET_COMPLEXITY_FCTS[p[1]](len(p[0]), np.array(p[2], dtype=np.int32)) for p in pb.propagators]
        if any(cx[i] > cx[i + 1] for i in range(len(cx) - 1)):
            fails.add("not-sorted-by-complexity")
        snap = {k: getattr(pb, k).copy() for k in ("algorithms", "var_bounds", "param_bounds", "props_dom_indices", "props_dom_offsets", "props_parameters", "triggers")}
        pb.init()
        if any(a.shape != getattr(pb, k).shape or (a != getattr(pb, k)).any() for k, a in snap.items()):
            fails.add("second-init-differs")
        return kind in fails, f"failures={sorted(fails)}"
    return False, "advisory lemma: no public-API scenario is derived automatically"


def probe_passes(w):
    """interpreted mode only: wraps the consistency algorithms and re-executes the enabled propagators after every pass"""
    import nucs.propagators.propagators as P
    import nucs.solvers.consistency_algorithms as CA

    found = set()
    saved = list(CA.CONSISTENCY_ALG_FCTS)

    def wrap(f):
        def g(statistics, algorithms, var_bounds, param_bounds, dia, doa, pdi, pdo, pp, triggers, stack, ne, du, st, trig, addrs, dec):
            top = int(st[0])
            before = stack[top].copy()
            status = f(statistics, algorithms, var_bounds, param_bounds, dia, doa, pdi, pdo, pp, triggers, stack, ne, du, st, trig, addrs, dec)
            if status == 0:
                return status
            cur = stack[top]
            if (cur[:, 0] < before[:, 0]).any() or (cur[:, 1] > before[:, 1]).any() or (cur[:, 0] > cur[:, 1]).any():
                found.add("pass-grew-or-emptied-a-domain")
            if bool((cur[:, 0] == cur[:, 1]).all()) != (status == 2):
                found.add("solved-status-mismatch")
            for p in range(len(algorithms)):
                if not ne[top, p]:
                    continue
                vs, ve = int(var_bounds[p, 0]), int(var_bounds[p, 1])
                doms = stack[top, pdi[vs:ve]] + pdo[vs:ve]
                snap = doms.copy()
                st2 = saved_cd[int(algorithms[p])](doms, pp[int(param_bounds[p, 0]) : int(param_bounds[p, 1])])
                if st2 == 0:
                    found.add("enabled-propagator-fails-at-exit")
                elif int(algorithms[p]) != P.ALG_NO_SUB_CYCLE and (doms != snap).any():
                    found.add("not-a-fixpoint-at-exit")
            return status

        return g

    saved_cd = list(P.COMPUTE_DOMAINS_FCTS)
    for i, f in enumerate(saved):
        CA.CONSISTENCY_ALG_FCTS[i] = wrap(f)
    try:
        run_real(w)
    finally:
        CA.CONSISTENCY_ALG_FCTS[:] = saved
    return found


def probe_entailed(w):
    """interpreted mode only: at every entry of a consistency algorithm, a constraint whose flag is off at the current level
    must be entailed by the current box (brute force over the box with the pure-Python relations)"""
    import itertools

    import nucs.propagators.propagators as P
    import nucs.solvers.consistency_algorithms as CA

    names = {getattr(P, n): n[4:].lower() for n in dir(P) if n.startswith("ALG_")}
    found = []
    saved = list(CA.CONSISTENCY_ALG_FCTS)

    def wrap(f):
        def g(statistics, algorithms, var_bounds, param_bounds, dia, doa, pdi, pdo, pp, triggers, stack, ne, du, st, trig, addrs, dec):
            top = int(st[0])
            for p in range(len(algorithms)):
                if ne[top, p]:
                    continue
                name = names.get(int(algorithms[p]))
                if name in ("no_sub_cycle", "scc", "dummy") or name not in PYREL:
                    continue
                vs, ve = int(var_bounds[p, 0]), int(var_bounds[p, 1])
                idx = [int(i) for i in pdi[vs:ve]]
                offs = [int(o) for o in pdo[vs:ve]]
                par = [int(q) for q in pp[int(param_bounds[p, 0]) : int(param_bounds[p, 1])]]
                ds = sorted(set(idx))
                rngs = [range(int(stack[top, d, 0]), int(stack[top, d, 1]) + 1) for d in ds]
                if any(len(r_) > 64 for r_ in rngs):
                    continue
                for vals in itertools.product(*rngs):
                    x = dict(zip(ds, vals))
                    t = [x[d] + o for d, o in zip(idx, offs)]
                    if not PYREL[name](t, par):
                        found.append(dict(level=top, prop_index=p, alg=name, box=[[int(stack[top, d, 0]), int(stack[top, d, 1])] for d in ds], violating=t))
                        break
            return f(statistics, algorithms, var_bounds, param_bounds, dia, doa, pdi, pdo, pp, triggers, stack, ne, du, st, trig, addrs, dec)

        return g

    for i, f in enumerate(saved):
        CA.CONSISTENCY_ALG_FCTS[i] = wrap(f)
    try:
        run_real(w)
    finally:
        CA.CONSISTENCY_ALG_FCTS[:] = saved
    return found


def ghost_stats(w):
    """interpreted mode only: ghost counters by interposed wrappers, compared with the reported statistics"""
    import nucs.heuristics.heuristics as H
    import nucs.propagators.propagators as P
    import nucs.solvers.backtrack_solver as BS
    import nucs.solvers.consistency_algorithms as CA
    import nucs.solvers.shaving_consistency_algorithm as SH

    g = dict(filter=0, incons=0, entail=0, nochange=0, choice=0, bt=0, bc=0, depth=0)
    saved = (list(P.COMPUTE_DOMAINS_FCTS), list(H.DOM_HEURISTIC_FCTS), list(CA.CONSISTENCY_ALG_FCTS), BS.backtrack, SH.bound_consistency_algorithm)

    def wcd(f):
        def h(dom, par):
            before = dom.copy()
            g["filter"] += 1
            st = f(dom, par)
            if st == 0:
                g["incons"] += 1
            else:
                if st == 2:
                    g["entail"] += 1
                if (dom == before).all():
                    g["nochange"] += 1
            return st

        return h

    def wdh(f):
        def h(params, stack, ne, du, st, idx):
            g["choice"] += 1
            r_ = f(params, stack, ne, du, st, idx)
            g["depth"] = max(g["depth"], int(st[0]))
            return r_

        return h

    def wca(i, f):
        def h(*a):
            if i == CA.CONSISTENCY_ALG_BC:
                g["bc"] += 1
            return f(*a)

        return h

    for i, f in enumerate(saved[0]):
        P.COMPUTE_DOMAINS_FCTS[i] = wcd(f)
    for i, f in enumerate(saved[1]):
        H.DOM_HEURISTIC_FCTS[i] = wdh(f)
    for i, f in enumerate(saved[2]):
        CA.CONSISTENCY_ALG_FCTS[i] = wca(i, f)

    def bt(*a):
        r_ = saved[3](*a)
        if r_:
            g["bt"] += 1
        return r_

    BS.backtrack = bt

    def bcs(*a):
        g["bc"] += 1
        return saved[4](*a)

    SH.bound_consistency_algorithm = bcs
    try:
        sols, stats = run_real(w)
    finally:
        P.COMPUTE_DOMAINS_FCTS[:] = saved[0]
        H.DOM_HEURISTIC_FCTS[:] = saved[1]
        CA.CONSISTENCY_ALG_FCTS[:] = saved[2]
        BS.backtrack = saved[3]
        SH.bound_consistency_algorithm = saved[4]
    bc_only = (w.get("cfg") or {}).get("cons", "bc") == "bc"
    exp = {"PROPAGATOR_FILTER_NB": g["filter"], "PROPAGATOR_INCONSISTENCY_NB": g["incons"], "PROPAGATOR_ENTAILMENT_NB": g["entail"], "PROPAGATOR_FILTER_NO_CHANGE_NB": g["nochange"], "ALG_BC_NB": g["bc"]}
    if bc_only:
        exp.update({"SOLVER_CHOICE_NB": g["choice"], "SOLVER_BACKTRACK_NB": g["bt"], "SOLVER_CHOICE_DEPTH": g["depth"]})
    if w.get("mode", "solve") in ("solve", "solve_q"):
        exp["SOLVER_SOLUTION_NB"] = len(sols)
    wrong = {k: (int(stats[k]), v) for k, v in exp.items() if int(stats[k]) != v}
    if bc_only and w.get("mode", "solve") in ("solve", "solve_q") and w.get("partial") is None:
        if int(stats["ALG_BC_NB"]) != 1 + int(stats["SOLVER_CHOICE_NB"]) + int(stats["SOLVER_BACKTRACK_NB"]):
            wrong["law:passes=1+choices+backtracks"] = (int(stats["ALG_BC_NB"]), int(stats["SOLVER_CHOICE_NB"]), int(stats["SOLVER_BACKTRACK_NB"]))
    return wrong


_replay_solve_basic = replay_solve


def replay_solve(r):  # noqa: F811
    kind = r["kind"]
    if kind.startswith("different-") and r.get("history"):
        # two fresh interpreters: one solves at once, the other goes through the history first
        a = _run_real_watchdog(dict(r, history=[h for h in r["history"] if h == "then_split_part0"]), 120)
        b = _run_real_watchdog(r, 120)
        return a != b, f"fresh process: {str(a)[:300]} ... after history {r['history']}: {str(b)[:300]}"
    if r.get("prop") == "C08" and kind in ("pass-grew-or-emptied-a-domain", "solved-status-mismatch", "enabled-propagator-fails-at-exit", "not-a-fixpoint-at-exit"):
        if not os.environ.get("NUMBA_DISABLE_JIT"):
            return False, "pass-level probes need the interpreted mode"
        found = probe_passes(r)
        return kind in found, f"probe found {sorted(found)}"
    if kind == "control-flow-depends-on-uninitialised-memory":
        # np.empty may return any content: two fresh interpreters, memory pre-filled with 0x00 resp. 0xff (interpreted mode)
        a = _run_real_watchdog(r, 120, fill="00")
        b = _run_real_watchdog(r, 120, fill="ff")
        return a != b, f"np.empty filled with 0x00: {str(a)[:300]} ... filled with 0xff: {str(b)[:300]}"
    if kind == "disabled-constraint-not-entailed":
        if not os.environ.get("NUMBA_DISABLE_JIT"):
            return False, "pass-level probes need the interpreted mode"
        found = probe_entailed(r)
        return bool(found), f"a consistency pass was entered with a disabled constraint that the current box does not entail: {found[:2]}"
    if kind.startswith("counter-mismatch:"):
        if not os.environ.get("NUMBA_DISABLE_JIT"):
            return False, "ghost counters need the interpreted mode"
        wrong = ghost_stats(r)
        return kind[len("counter-mismatch:"):] in wrong, f"mismatches (reported, counted): {wrong}"
    return _replay_solve_basic(r)


def replay_shave(r):
    import nucs.heuristics.heuristics as H
    import nucs.propagators.propagators as P
    import nucs.solvers.backtrack_solver as BS
    from nucs.solvers.bound_consistency_algorithm import bound_consistency_algorithm
    from nucs.solvers.shaving_consistency_algorithm import shaving_consistency_algorithm, shave_bound

    kind = r["kind"]
    if r.get("site") == "shave_bound":
        # the real shave_bound, interpreted, with the propagation pass replaced by a pass that changes nothing and
        # answers the recorded status (such a pass respects the contract the lemma assumes)
        if not os.environ.get("NUMBA_DISABLE_JIT"):
            return False, "the shave_bound lemma is replayed in interpreted mode (the inner pass is replaced)"
        import nucs.solvers.shaving_consistency_algorithm as SH

        height, top, bound, a, b = r.get("height", 5), r["top"], r["bound"], r["a"], r["b"]
        fails = set()
        info = []
        # two passes that respect the contract the lemma assumes: one changes nothing, one also declares every constraint
        # entailed at the level it runs on (what a real pass does before it fails or succeeds further on)
        for clear_flags in (False, True):
            rng = np.random.RandomState(7)
            stack = rng.randint(-50, 50, size=(height, 2, 2)).astype(np.int32)
            ne = rng.randint(0, 2, size=(height, 2)).astype(bool)
            ne[top] = True
            du = np.zeros((height, 2), dtype=np.uint16)
            st = np.array([top], dtype=np.uint8)
            stack[top, 0] = (a, b)
            before, ne_before = stack.copy(), ne.copy()
            trig = np.zeros(2, dtype=bool)
            real = SH.bound_consistency_algorithm

            def stub(*args, _c=clear_flags):
                if _c:
                    ne_, st_ = args[11], args[13]
                    ne_[int(st_[0]), :] = False
                return r["bc_status"]

            SH.bound_consistency_algorithm = stub
            try:
                shaved = bool(SH.shave_bound(bound, 0, np.zeros(13, dtype=np.int64), None, None, None, None, None, None, None, None, np.array(r["watchers"], dtype=np.uint8), stack, ne, du, st, trig, None, None))
            finally:
                SH.bound_consistency_algorithm = real
            if int(st[0]) != top:
                fails.add("stack-height-changed")
            if shaved != (r["bc_status"] == 0):
                fails.add("refutation-verdict-differs-from-propagation-status")
            want = [a + 1, b] if (shaved and bound == 0) else ([a, b - 1] if shaved else [a, b])
            if stack[top, 0].tolist() != want or (stack[top, 1] != before[top, 1]).any() or (ne[top] != ne_before[top]).any() or (stack[:top] != before[:top]).any():
                fails.add("level-below-not-as-specified" if shaved else "undo-does-not-restore-the-level")
            if shaved:
                need = (1 if bound == 0 else 2) | (4 if want[0] == want[1] else 0)
                for p in range(2):
                    if (r["watchers"][0][p] & need) and not trig[p]:
                        fails.add("shaved-bound-not-announced-to-its-watchers")
            info.append(f"pass clears the flags of its level={clear_flags}: level={stack[top].tolist()} queue={trig.tolist()}")
        return kind in fails, f"failures={sorted(fails)} {info}"
    addrs = BS.get_function_addresses()[0]

    def mk():
        pb, kw, BacktrackSolver = build_real(dict(r, cfg=dict(decision=r["decision"]) if r.get("decision") is not None else {}))
        s = BacktrackSolver(pb, **kw)
        return s

    def args(s):
        pb = s.problem
        return (s.statistics, pb.algorithms, pb.var_bounds, pb.param_bounds, pb.dom_indices_arr, pb.dom_offsets_arr, pb.props_dom_indices, pb.props_dom_offsets, pb.props_parameters, pb.triggers, s.shr_domains_stack, s.not_entailed_propagators_stack, s.dom_update_stack, s.stacks_top, s.triggered_propagators, addrs, s.decision_domains)

    s1, s2 = mk(), mk()
    if r.get("state") == "after_choice":
        for s in (s1, s2):
            if bound_consistency_algorithm(*args(s)) != 1:
                return False, "root not unbound"
            d = H.VAR_HEURISTIC_FCTS[H.VAR_HEURISTIC_FIRST_NOT_INSTANTIATED](s.var_heuristic_params, s.decision_domains, s.shr_domains_stack, s.stacks_top)
            if int(d) < 0:
                return False, "no decision domain left"
            ev = H.DOM_HEURISTIC_FCTS[H.DOM_HEURISTIC_MIN_VALUE](s.dom_heuristic_params, s.shr_domains_stack, s.not_entailed_propagators_stack, s.dom_update_stack, s.stacks_top, d)
            P.add_propagators(s.triggered_propagators, s.not_entailed_propagators_stack[s.stacks_top[0]], s.problem.triggers, d, ev)
    top = int(s1.stacks_top[0])
    entry = s1.shr_domains_stack[top].copy().tolist()
    below = s1.shr_domains_stack[:top].copy()
    st_sh = int(shaving_consistency_algorithm(*args(s1)))
    st_bc = int(bound_consistency_algorithm(*args(s2)))
    fails = set()
    if int(s1.stacks_top[0]) != top:
        fails.add("stack-height-changed")
    if (s1.shr_domains_stack[:top] != below).any():
        fails.add("lower-level-modified")
    sols = semantic_solutions(dict(r, doms=entry))
    dom_of = lambda vals: [vals[r["dom_indices"].index(d)] - r["offsets"][r["dom_indices"].index(d)] for d in range(len(entry))]  # noqa: E731
    sh = s1.shr_domains_stack[top].tolist()
    bc = s2.shr_domains_stack[top].tolist()
    if st_sh == 0:
        if sols:
            fails.add("fails-although-a-solution-exists")
    else:
        if st_bc == 0:
            fails.add("bc-fails-but-shaving-does-not")
        else:
            if any(a < c or b > d for (a, b), (c, d) in zip(sh, bc)):
                fails.add("not-contained-in-bc-result")
        for v in sols:
            x = dom_of(v)
            if any(not (lo <= xi <= hi) for xi, (lo, hi) in zip(x, sh)):
                fails.add("solution-shaved-away")
        if int(bound_consistency_algorithm(*args(s1))) == 0 or s1.shr_domains_stack[top].tolist() != sh:
            fails.add("result-is-not-bound-consistent")
    return kind in fails, f"failures={sorted(fails)} shaving=({st_sh},{sh}) bc=({st_bc},{bc}) entry={entry}"


def real_model(inst):
    """runs the real solver on a shipped model instance and returns its solution count or optimum"""
    from nucs.solvers.backtrack_solver import BacktrackSolver
    import nucs.heuristics.heuristics as H

    name, args = inst["model"], inst["args"]
    kw = dict(log_level="CRITICAL")
    if name == "queens":
        from nucs.examples.queens.queens_problem import QueensProblem as K
    elif name == "latin_square":
        from nucs.problems.latin_square_problem import LatinSquareProblem

        K = lambda n: LatinSquareProblem(list(range(n)))  # noqa: E731
    elif name == "latin_square_rc":
        from nucs.problems.latin_square_problem import LatinSquareRCProblem as K
    elif name == "quasigroup5":
        from nucs.examples.quasigroup.quasigroup_problem import Quasigroup5Problem as K
    elif name == "quasigroup":
        from nucs.examples.quasigroup.quasigroup_problem import QuasigroupProblem as K
    elif name == "sports":
        from nucs.examples.sports_tournament_scheduling.sports_tournament_scheduling_problem import SportsTournamentSchedulingProblem as K
    elif name == "magic_square":
        from nucs.examples.magic_square.magic_square_problem import MagicSquareProblem as K
    elif name == "magic_sequence":
        from nucs.examples.magic_sequence.magic_sequence_problem import MagicSequenceProblem as K
    elif name == "golomb":
        from nucs.examples.golomb.golomb_problem import GolombProblem as K
    elif name == "bibd":
        from nucs.examples.bibd.bibd_problem import BIBDProblem as K
    elif name == "schur_lemma":
        from nucs.examples.schur_lemma.schur_lemma_problem import SchurLemmaProblem as K
    elif name == "knapsack":
        from nucs.examples.knapsack.knapsack_problem import KnapsackProblem

        w = [40, 40, 38, 38, 36, 36, 34, 34, 32, 32, 30, 30, 28, 28, 26, 26, 24, 24, 22, 22]
        K = lambda: KnapsackProblem(w, w, 55)  # noqa: E731
    elif name == "circuit":
        from nucs.problems.circuit_problem import CircuitProblem as K
    elif name == "tsp":
        from nucs.examples.tsp.tsp_problem import TSPProblem as K
    elif name == "sudoku":
        from nucs.examples.sudoku.sudoku_problem import SudokuProblem as K
    elif name == "alpha":
        from nucs.examples.alpha.alpha_problem import AlphaProblem as K
    elif name == "donald":
        from nucs.examples.donald.donald_problem import DonaldProblem as K
    else:
        raise KeyError(name)
    results = {}
    configs = inst.get("configs") or [dict(), dict(dom_heuristic_idx=H.DOM_HEURISTIC_MAX_VALUE), dict(var_heuristic_idx=H.VAR_HEURISTIC_SMALLEST_DOMAIN, dom_heuristic_idx=H.DOM_HEURISTIC_SPLIT_LOW)]
    for ci, cfg in enumerate(configs):
        pb = K(*args)
        if name in ("latin_square_rc", "quasigroup5", "quasigroup"):
            n = args[0]
            cfg = dict(cfg, decision_domains=list(range(n * n)))
        if name == "bibd":
            cfg = dict(cfg, decision_domains=list(range(args[0] * args[1])))
        s = BacktrackSolver(pb, **dict(kw, **cfg))
        if "optimum" in inst:
            if name == "golomb":
                sol = s.minimize(int(pb.length_idx))
                results[ci] = None if sol is None else int(sol[int(pb.length_idx)])
            elif name == "knapsack":
                sol = s.maximize(pb.weight)
                results[ci] = None if sol is None else int(sol[pb.weight])
            else:
                sol = s.minimize(pb.shr_domain_nb - 1)
                results[ci] = None if sol is None else int(sol[pb.shr_domain_nb - 1])
        elif inst.get("all_valid"):
            # every solution of the real solver is judged by a definition-level validator: the result is the number of invalid ones
            results[ci] = sum(1 for sol in itertools.islice(s.solve(), inst.get("first")) if not MODEL_VALIDATORS[inst["all_valid"]](sol.tolist(), args, pb))
        else:
            s.solve_all()
            results[ci] = int(s.get_statistics()["SOLVER_SOLUTION_NB"])
    return results


def _sports_schedule(sol, args, pb):
    n, P_, W = pb.team_nb, pb.period_nb, pb.week_nb
    team = lambda p, w, s_: sol[pb.team_var_index(p, w, s_)]  # noqa: E731
    if any(sorted(team(p, w, s_) for p in range(P_) for s_ in range(2)) != list(range(n)) for w in range(W)):
        return False  # every team plays once a week
    if any(sum(1 for w in range(W) for s_ in range(2) if team(p, w, s_) == t) > 2 for p in range(P_) for t in range(n)):
        return False  # at most twice in the same period
    games = sorted(tuple(sorted((team(p, w, 0), team(p, w, 1)))) for p in range(P_) for w in range(W))
    return games == [(a, b) for a in range(n) for b in range(a + 1, n)]  # every pair exactly once


def _idempotent_latin(sol, args, pb=None):
    n = args[0]
    m = [sol[i * n : (i + 1) * n] for i in range(n)]
    full = set(range(n))
    return all(set(r) == full for r in m) and all({m[i][j] for i in range(n)} == full for j in range(n)) and all(m[i][i] == i for i in range(n))


MODEL_VALIDATORS = {"idempotent_latin": _idempotent_latin, "sports": _sports_schedule}


def replay_models(r):
    """r['instances']: list of dict(model, args, count|optimum). reproduced iff the real solver disagrees with the recorded value"""
    if r.get("model") == "knapsack" and "volumes" in r:
        # symbolic-instance counterexample: the real solver's optimum on that instance vs brute force over the definition
        from nucs.examples.knapsack.knapsack_problem import KnapsackProblem
        from nucs.solvers.backtrack_solver import BacktrackSolver

        w, v, c = r["weights"], r["volumes"], r["capacity"]
        best = max(sum(wi for wi, t in zip(w, ts) if t) for ts in itertools.product((0, 1), repeat=len(w)) if sum(vi for vi, t in zip(v, ts) if t) <= c)
        pb = KnapsackProblem(list(w), list(v), c)
        sol = BacktrackSolver(pb, log_level="CRITICAL").maximize(pb.weight)
        got = None if sol is None else int(sol[pb.weight])
        return got != best, f"weights={w} volumes={v} capacity={c}: real solver optimum {got}, definition {best}"
    if r.get("model") == "latin_square_givens":
        # symbolic-givens counterexample: the real solver's solutions on that instance vs brute force over the definition
        from nucs.problems.latin_square_problem import LatinSquareProblem
        from nucs.solvers.backtrack_solver import BacktrackSolver

        colors, givens, n = r["colors"], r["givens"], r["size"]
        want = set()
        for sq in itertools.product(colors, repeat=n * n):
            rows = [sq[i * n : (i + 1) * n] for i in range(n)]
            if all(len(set(x)) == n for x in rows) and all(len({rows[i][j] for i in range(n)}) == n for j in range(n)):
                if all(givens[i][j] not in colors or rows[i][j] == givens[i][j] for i in range(n) for j in range(n)):
                    want.add(tuple(sq))
        got = [tuple(int(v) for v in s_) for s_ in BacktrackSolver(LatinSquareProblem(list(colors), [list(x) for x in givens]), log_level="CRITICAL").solve()]
        return sorted(got) != sorted(want), f"colors={colors} givens={givens}: real solver {len(got)} squares, definition {len(want)}"
    bad = []
    for inst in r["instances"]:
        exp = inst.get("count", inst.get("optimum"))
        if inst.get("all_valid"):
            exp = 0  # number of solutions rejected by the definition-level validator
        if exp is None:
            continue
        res = real_model(inst)
        if any(v != exp for v in res.values()):
            bad.append((inst["model"], inst["args"] if inst["model"] not in ("sudoku", "tsp") else "...", exp, res))
    return bool(bad), f"disagreements: {bad}" if bad else f"{len(r['instances'])} instances agree with the real solver under 3 configurations"


def validate_models(w):
    exp = 0 if w.get("all_valid") else w.get("count", w.get("optimum"))
    res = real_model(w)
    return all(v == exp for v in res.values()), f"real solver: {res}, expected {exp}"


def replay_build(r):
    """the same calls on the real Problem with the witness values; fields compared with what was given, and the built
    problem enumerated by the real solver against brute force (each assignment exactly once)"""
    import itertools

    from nucs.problems.problem import Problem
    from nucs.solvers.backtrack_solver import BacktrackSolver
    from nusym.h_build_scenarios import SCENARIOS

    sc = SCENARIOS[r["scenario"]]
    D = {k: tuple(v) for k, v in r["doms"].items()}
    # keep the enumeration small: shrink every domain to at most 2 values
    D = {k: (a, min(b, a + 1)) for k, (a, b) in D.items()}
    o = r["o"]
    off = lambda x: o if x == "o" else x  # noqa: E731
    doms, idx, offs = sc["ctor"]
    pb = Problem([D[n] for n in doms], None if idx is None else list(idx), None if offs is None else [off(x) for x in offs])
    e_doms = list(doms)
    e_vars = [(i, 0) for i in range(len(doms))] if idx is None else [(i, off(x)) for i, x in zip(idx, offs)]
    returned, e_returned = [], []
    for call in sc["calls"]:
        e_returned.append(len(e_vars))
        if call[0] == "add_variable":
            _, d, di, do = call
            returned.append(pb.add_variable(D[d], di, None if do is None else off(do)))
            e_doms.append(d)
            e_vars.append((len(e_doms) - 1 if di is None else di, 0 if do is None else off(do)))
        else:
            _, ds, dis, dos = call
            returned.append(pb.add_variables([D[d] for d in ds], None if dis is None else list(dis), None if dos is None else [off(x) for x in dos]))
            for k, d in enumerate(ds):
                e_doms.append(d)
                e_vars.append((len(e_doms) - 1 if dis is None else dis[k], 0 if dos is None else off(dos[k])))
    fails = set()
    if list(pb.dom_indices_lst) != [i for i, _ in e_vars]:
        fails.add("domain-index-not-as-given")
    if list(pb.dom_offsets_lst) != [e for _, e in e_vars]:
        fails.add("offset-not-as-given")
    if pb.shr_domain_nb != len(pb.shr_domains_lst):
        fails.add("shared-domain-count-wrong")
    if [int(x) for x in returned] != e_returned:
        fails.add("returned-index-is-not-the-variable")
    info = ""
    # semantic: the assignments of the model as written = product over the shared domains actually used, each exactly once
    used = sorted({i for i, _ in e_vars})
    expected = sorted(tuple(vals[used.index(i)] + e for i, e in e_vars) for vals in itertools.product(*[range(D[e_doms[i]][0], D[e_doms[i]][1] + 1) for i in used]))
    try:
        got = sorted(tuple(int(v) for v in s) for s in BacktrackSolver(pb, log_level="CRITICAL").solve())
        if got != expected:
            if len(set(got)) != len(got) and sorted(set(got)) == expected:
                fails.add("orphan-shared-domain-multiplies-solutions")
            else:
                fails.add("variable-ranges-over-another-domain")
                fails.add("domain-index-not-as-given")
            info = f"enumeration {got[:6]}... ({len(got)}) vs model as written {expected[:6]}... ({len(expected)})"
    except Exception as e:  # noqa
        info = f"solver raised {type(e).__name__}: {e}"
        fails.add("solver-raises")
    return r["kind"] in fails, f"failures={sorted(fails)} {info}"


def replay_golomb(r):
    """lifted to the public API: the state the solver found satisfies the search invariant but need not be reached by a search;
    the counterexample is reported only if the real solver, with the custom consistency algorithm, returns a wrong optimum, a
    non-ruler, or dies, on some size 4..8 (known optimal lengths)"""
    import subprocess

    known = {4: 6, 5: 11, 6: 17, 7: 25, 8: 34}
    code = (
        "import sys\nfrom nucs.examples.golomb.golomb_problem import GolombProblem, golomb_consistency_algorithm, index\n"
        "from nucs.solvers.backtrack_solver import BacktrackSolver\nfrom nucs.solvers.consistency_algorithms import register_consistency_algorithm\n"
        "n=int(sys.argv[1]); sb=bool(int(sys.argv[2]))\np=GolombProblem(n, sb)\na=register_consistency_algorithm(golomb_consistency_algorithm)\n"
        "s=BacktrackSolver(p, consistency_alg_idx=a, decision_domains=list(range(n-1)), log_level='CRITICAL')\nb=s.minimize(index(n,0,n-1))\n"
        "m=[0]+[int(b[index(n,0,j)]) for j in range(1,n)]\nd=[m[j]-m[i] for i in range(n) for j in range(i+1,n)]\n"
        "print('RES', int(b[index(n,0,n-1)]), int(len(set(d))==len(d) and all(int(b[index(n,i,j)])==m[j]-m[i] for i in range(n) for j in range(i+1,n))))\n"
    )
    bad = []
    for n, best in known.items():
        for sb in (0, 1):
            try:
                p = subprocess.run([sys.executable, "-c", code, str(n), str(sb)], capture_output=True, text=True, timeout=600)
                line = [l for l in p.stdout.splitlines() if l.startswith("RES ")]
                if not line:
                    bad.append(f"n={n} sb={sb}: died rc={p.returncode} {p.stderr[-200:]}")
                else:
                    _, length, ok = line[-1].split()
                    if int(length) != best or ok != "1":
                        bad.append(f"n={n} sb={sb}: length {length} (known optimum {best}), valid ruler={ok}")
            except subprocess.TimeoutExpired:
                bad.append(f"n={n} sb={sb}: no result within 600 s")
    return bool(bad), f"real solver with the custom consistency algorithm: {bad[:3] if bad else 'all optima 4..8 as known'}"


HANDLERS = {"models": replay_models, "shave": replay_shave, "prop": replay_prop, "heur": replay_heur, "split": replay_split, "reducer": replay_reducer, "stack": replay_stack, "solve": replay_solve, "varheur": replay_varheur, "lemma": replay_lemma, "build": replay_build, "golomb": replay_golomb}


def validate_prop(w):
    st, out = real_prop(w["alg"], w["box"], w["params"])
    ok = st == w["status"] and (st == 0 or out == w["out"])
    return ok, f"real: status={st} out={out}"


VALIDATORS = {"prop": validate_prop, "split": validate_split, "solve": validate_solve, "models": validate_models}


def _load_ext():
    # further harness families register their handlers here
    try:
        import replay_ext  # noqa: F401
    except ImportError:
        pass


def outcome(r):
    """canonical observable outcome of a witness in the CURRENT execution mode (used by the mode-differential replay)"""
    h = r.get("harness", "prop")
    try:
        if h == "prop":
            return ["ok", real_prop(r["alg"], r["box"], r["params"])]
        if h == "solve":
            return ["ok", run_real(r)]
        if h == "stack":
            import nucs.heuristics.heuristics as H
            from nucs.problems.problem import Problem
            from nucs.solvers.backtrack_solver import BacktrackSolver
            from nucs.solvers.consistency_algorithms import CONSISTENCY_ALG_BC, CONSISTENCY_ALG_SHAVING

            heur = r.get("heuristic", "min_value")
            nvars = r.get("nvars") or r["height"]
            widths = r.get("widths") or [1] * nvars
            s = BacktrackSolver(Problem([(0, w) for w in widths]), consistency_alg_idx=CONSISTENCY_ALG_SHAVING if r.get("shaving") else CONSISTENCY_ALG_BC, dom_heuristic_idx=getattr(H, "DOM_HEURISTIC_" + heur.upper()), dom_heuristic_params=[[2, 1, 2]] * nvars if heur == "min_cost" else [[]], stack_max_height=r["height"], log_level="CRITICAL")
            first = next(iter(s.solve()))
            return ["ok", [int(x) for x in first], s.get_statistics()["SOLVER_CHOICE_DEPTH"]]
        if h == "heur":
            fails, info = heur_failures(r)
            return ["ok", sorted(fails), str(info)]
    except Exception as e:  # noqa
        return ["raised", type(e).__name__]
    return ["unsupported"]


def replay_mode_hazard(r):
    """runs the witness in two fresh interpreters, compiled and interpreted, and compares what the user observes"""
    import signal
    import subprocess
    import tempfile

    with tempfile.NamedTemporaryFile("w", suffix=".json", delete=False) as f:
        json.dump(r, f)
        path = f.name
    outs = {}
    for mode in ("jit", "interpreted"):
        env = dict(os.environ)
        if mode == "jit":
            env.pop("NUMBA_DISABLE_JIT", None)
        else:
            env["NUMBA_DISABLE_JIT"] = "1"
        proc = subprocess.Popen([sys.executable, os.path.abspath(__file__), "--outcome", path], stdout=subprocess.PIPE, stderr=subprocess.PIPE, text=True, env=env, start_new_session=True)
        try:
            out, err = proc.communicate(timeout=float(os.environ.get("NUSYM_WATCHDOG_S", "90")))
            line = [l for l in out.splitlines() if l.startswith("OUTCOME ")]
            outs[mode] = line[-1][8:] if line else f"crashed rc={proc.returncode}"
        except subprocess.TimeoutExpired:
            os.killpg(proc.pid, signal.SIGKILL)
            proc.wait()
            outs[mode] = "timeout"
    os.unlink(path)
    return outs["jit"] != outs["interpreted"], f"compiled: {outs['jit'][:300]} | interpreted: {outs['interpreted'][:300]}"


def _patch_empty():
    """np.empty returns unspecified memory: NUSYM_EMPTY_FILL=00|ff makes it return that byte pattern (interpreted mode: the arrays
    of the solver are allocated by Python code) - an allowed behaviour of np.empty, used to reproduce a dependence on it"""
    fill = os.environ.get("NUSYM_EMPTY_FILL")
    if not fill:
        return
    import numpy as np

    orig = np.empty
    byte = int(fill, 16)

    def empty(shape, dtype=float, *a, **kw):
        arr = orig(shape, dtype, *a, **kw)
        try:
            arr.view(np.uint8).fill(byte)
        except Exception:  # noqa
            pass
        return arr

    np.empty = empty


def main(argv):
    _patch_empty()
    _load_ext()
    if argv and argv[0] == "--outcome":
        r = json.load(open(argv[1]))
        print("OUTCOME " + json.dumps(outcome(r), default=str))
        return 0
    if argv and argv[0] == "--validate":
        batch = json.load(open(argv[1]))
        bad = 0
        for w in batch:
            ok, info = VALIDATORS[w.get("harness", "prop")](w)
            if not ok:
                bad += 1
                print("MISMATCH", json.dumps(w), info)
        print(f"VALIDATED {len(batch) - bad} / {len(batch)}")
        return 0 if bad == 0 else 4
    r = json.load(open(argv[0]))
    if r.get("kind") == "mode-hazard":
        ok, info = replay_mode_hazard(r)
    else:
        ok, info = HANDLERS[r.get("harness", "prop")](r)
    mode = "interpreted" if os.environ.get("NUMBA_DISABLE_JIT") else "jit"
    if os.environ.get("NUSYM_EMPTY_FILL"):
        mode += "+np.empty=0x" + os.environ["NUSYM_EMPTY_FILL"]
    print(("REPRODUCED" if ok else "NOT-REPRODUCED"), f"[{mode}]", r.get("prop"), r.get("kind"), info)
    return 0 if ok else 3


if __name__ == "__main__":
    sys.exit(main(sys.argv[1:]))
