#!/bin/bash
# development aid: run checks (quick tier) against a seeded change.
#   tools_seeded.sh <seeded-id> <check id> [<check id> ...]
# The change is applied to a scratch worktree of /repo's HEAD (NUSYM_REPO points the machinery at it), so that /repo is not
# touched while other runs use it; the worktree is removed afterwards.  (The official way - git -C /repo apply, run, git -C
# /repo checkout -- .  - gives the same result: NUSYM_REPO defaults to /repo.)
# prints one line per check:  <seeded-id> <check> exit=<code> <first VIOLATION line>
set -u
id="$1"; shift
patch="/verif/seeded/$id/patch.diff"
[ -f "$patch" ] || { echo "no $patch"; exit 2; }
wt="/tmp/nusym-seeded-$id"
git -C /repo worktree remove --force "$wt" >/dev/null 2>&1
git -C /repo worktree add -q "$wt" HEAD || exit 2
trap 'git -C /repo worktree remove --force "$wt" >/dev/null 2>&1' EXIT
git -C "$wt" apply "$patch" || { echo "patch does not apply"; exit 2; }
cd /verif
for c in "$@"; do
  out=$(NUSYM_REPO="$wt" NUSYM_EVIDENCE_DIR="/tmp/nusym-seeded-evidence" timeout 3000 python3-vt check.py "$c" --tier quick ${ONLY:+--only $ONLY} 2>&1)
  code=$?
  echo "$id $c exit=$code $(echo "$out" | grep -m1 '^VIOLATION' ) $(echo "$out" | grep -A1 -m1 '^VIOLATION' | tail -1 | cut -c1-220)"
  echo "$out" | grep '^INCONCLUSIVE' | head -2 | cut -c1-300
done
