#!/bin/bash
# development aid: apply a seeded change to /repo, run the given checks (quick tier), undo the change.
#   tools_seeded.sh <seeded-id> <check id> [<check id> ...]
# prints one line per check:  <seeded-id> <check> exit=<code> <first VIOLATION line>
set -u
id="$1"; shift
patch="/verif/seeded/$id/patch.diff"
[ -f "$patch" ] || { echo "no $patch"; exit 2; }
if ! git -C /repo diff --quiet; then echo "/repo has uncommitted changes"; exit 2; fi
git -C /repo apply "$patch" || { echo "patch does not apply"; exit 2; }
trap 'git -C /repo checkout -- . ' EXIT
cd /verif
for c in "$@"; do
  out=$(timeout 3000 python3-vt check.py "$c" --tier quick 2>&1)
  code=$?
  echo "$id $c exit=$code $(echo "$out" | grep -m1 '^VIOLATION' ) $(echo "$out" | grep -A1 -m1 '^VIOLATION' | tail -1 | cut -c1-220)"
  echo "$out" | grep '^INCONCLUSIVE' | head -2 | cut -c1-300
done
