from nusym.runner import Check
from . import propfam

CHECKS = {}


def check(pid):
    def deco(f):
        CHECKS[pid] = f
        return f

    return deco


@check("C05")
def c05(tier, seed, only):
    chk = Check("C05", tier, seed)
    batch = propfam.run_catalogue(chk, ["C05"], algs=only)
    return chk.finish({"prop": batch})


@check("C06")
def c06(tier, seed, only):
    chk = Check("C06", tier, seed)
    batch = propfam.run_catalogue(chk, ["C06"], algs=only)
    return chk.finish({"prop": batch})


@check("C14")
def c14(tier, seed, only):
    chk = Check("C14", tier, seed)
    batch = propfam.run_catalogue(chk, ["C14"], algs=only)
    return chk.finish({"prop": batch})


@check("C07")
def c07(tier, seed, only):
    chk = Check("C07", tier, seed)
    batch = propfam.run_catalogue(chk, ["C07"], algs=only)
    n_ent = sum(r["counts"].get("status:2", 0) for r in chk.runs)
    chk.require("C07", n_ent > 0, "no path answered ENTAILMENT")
    chk.extra_cov["entailment_paths"] = n_ent
    return chk.finish({"prop": batch})
