from nusym.runner import Check
from . import propfam
from . import solvefam

CHECKS = {}


def check(pid):
    def deco(f):
        CHECKS[pid] = f
        return f

    return deco


@check("C05")
def c05(tier, seed, only):
    chk = Check("C05", tier, seed)
    batch = propfam.run_catalogue(chk, ["C05"], algs=only)
    return chk.finish({"prop": batch})


@check("C06")
def c06(tier, seed, only):
    chk = Check("C06", tier, seed)
    batch = propfam.run_catalogue(chk, ["C06"], algs=only)
    return chk.finish({"prop": batch})


@check("C14")
def c14(tier, seed, only):
    chk = Check("C14", tier, seed)
    batch = propfam.run_catalogue(chk, ["C14"], algs=only)
    return chk.finish({"prop": batch})


@check("C07")
def c07(tier, seed, only):
    chk = Check("C07", tier, seed)
    batch = propfam.run_catalogue(chk, ["C07"], algs=only)
    n_ent = sum(r["counts"].get("status:2", 0) for r in chk.runs)
    chk.require("C07", n_ent > 0, "no path answered ENTAILMENT")
    chk.extra_cov["entailment_paths"] = n_ent
    # engine level: the flag rows through push / pop / restart.  On entry of every consistency pass of whole runs (enumeration and
    # optimisation, which re-arms the root level between two iterations) each disabled constraint is entailed by the current box
    d = solvefam.Deferred(chk)
    ent_models = ["lt", "geq_leq", "max_leq_min_geq", "obj_under_leq", "shared_offset_lt", "alldiff_lt", "count", "element_iv", "relation", "exactly", "and_true", "lex", "restart2", "restart3"]
    for name in ent_models:
        if only and name not in only:
            continue
        d.add(["C07"], [(name, {}), (name, dict(domh="max")), (name, dict(domh="mid", varh="smallest"))])
        for obj in _objectives(name):
            for mode in ("minimize", "maximize"):
                d.add(["C07"], [(name, {}), (name, dict(domh="max"))], mode=mode, objective=obj)
    batch2 = d.run()
    n_dis = sum(r["counts"].get("disabled-constraint-checked", 0) for r in chk.runs)
    chk.require("C07", n_dis > 0 or bool(only), "no consistency pass was entered with a disabled constraint")
    chk.extra_cov["disabled_constraints_checked_at_pass_entry"] = n_dis
    return chk.finish({"prop": batch, "solve": batch2})


HEUR_ASSUMPTIONS = [
    "the state the heuristic starts from is arbitrary (every cell of the three stacks is an unconstrained symbol of its dtype) except: the chosen domain has min < max, values within +-2^30, the stack pointer is one of the listed levels and leaves room for the push",
    "min_cost: the cost table covers the values of the domain and selectable costs are > 0 (ties allowed)",
    "stack height, number of domains (2) and propagators (2) are concrete; the watcher table of backtrack() is one of three fixed tables",
]


@check("C09")
def c09(tier, seed, only):
    from nusym import h_heur
    from nusym.runner import load_known

    chk = Check("C09", tier, seed)
    known = [k for k in load_known("C09") if k.get("harness") == "heur"]
    batch = []
    tables = (0, 1) if tier == "quick" else (0, 1, 2)
    jobs = []
    for hname in h_heur.HEUR_NAMES:
        if only and hname not in only:
            continue
        for table in tables:
            kw = dict(hname=hname, height=5 if tier == "quick" else 6, tops=(0, 1, 2) if tier == "quick" else (0, 1, 2, 3), table=table, W=4 if tier == "quick" else 5, select=["C09"], known=known)
            jobs.append(dict(key="heur", params=kw, label=f"{hname}/table={table}", hname=hname))
        chk.functions.add(f"nucs.heuristics.{hname}_dom_heuristic.{hname}_dom_heuristic")
    for job, r in zip(jobs, chk.explore_many(jobs)):
        pushed = [k for k in r.acc.counts if k.startswith("pushed:")]
        chk.require(job["hname"], bool(pushed), "the heuristic never returned")
    chk.explore("backtrack0", dict(), "backtrack at level 0")
    chk.functions.update(["nucs.solvers.choice_points.cp_put", "nucs.solvers.choice_points.backtrack", "nucs.heuristics.value_dom_heuristic.value_dom_heuristic", "nucs.propagators.propagators.add_propagators"])
    chk.bounds = dict(stack_height=5, start_levels=[0, 1, 2], domains=2, propagators=2, domain="[a,b], a<b, unbounded (+-2^30); min_cost: within [0,W)")
    chk.assumptions.extend(HEUR_ASSUMPTIONS)
    return chk.finish({})


@check("C12")
def c12(tier, seed, only):
    from nusym import h_split

    chk = Check("C12", tier, seed)
    batch = []
    K = 8 if tier == "quick" else 12
    jobs = [dict(key="split", params=dict(shape=shape, K=K), label=f"split/{shape}/k<={K}", shape=shape) for shape in h_split.SHAPES if not (only and shape not in only)]
    for job, r in zip(jobs, chk.explore_many(jobs)):
        batch.extend(r.acc.validate)
        chk.require(job["shape"], any(k.startswith("parts:") for k in r.acc.counts) or any(k.startswith("violation") for k in r.acc.counts), "split never returned")
    chk.functions.add("nucs.problems.problem.Problem.split")
    chk.bounds = dict(k=f"1..{K} (symbolic)", domain="[a,b] with a<=b unbounded (+-2^30), other domain [c,d], offset in [-2,2]", shapes=list(h_split.SHAPES))
    chk.assumptions += [
        "number of variables/shared domains is concrete (1-3); the layouts are: own domain, second of two own domains, two variables sharing one domain with offsets, variable index different from its shared-domain index",
        "'no two sub-problems share a solution and the union is the original solution set' is obtained by composition: the parts partition the split variable's domain (decided here) and each sub-problem is enumerated exactly (C02)",
        "an empty part is reported only if the real solver cannot digest the sub-problem (replay with a watchdog)",
    ]
    return chk.finish({"split": batch})


MP_STUBS = [
    "multiprocessing.Process -> FakeProcess (start() records, runs nothing; is_alive() False once the worker has put everything it will ever put and exited)",
    "multiprocessing.Queue -> FakeQueue driven by a nondeterministic scheduler (FIFO per worker; get() without timeout and nothing that can still arrive = blocks forever; get(timeout) then raises queue.Empty, and may do so spuriously once per run)",
    "worker streams: k solutions (k symbolic in [0,K]) then exactly one completion marker, statistics vectors symbolic and component-wise non-decreasing per worker (the worker-side contract is established on the real solve_and_queue/optimize_and_queue by the whole-run harness, C01)",
]


def _reducer_runs(chk, tier, select, faults):
    from nusym.runner import load_known

    known = [k for k in load_known(chk.pid) if k.get("harness") == "reducer"]
    # (workers, max solutions per worker, spurious time-outs allowed per run)
    grid = [(1, 2, 2), (2, 2, 1), (2, 1, 2)] if tier == "quick" else [(1, 3, 2), (2, 3, 1), (2, 2, 2), (3, 1, 2), (3, 2, 0)]
    if faults and tier == "quick":
        grid = [(1, 1, 1), (2, 1, 2)]
    elif faults:
        grid = [(1, 2, 1), (2, 2, 1), (3, 1, 1)]
    jobs = []
    for mode in ("solve", "minimize", "maximize"):
        for workers, K, sp in grid:
            jobs.append(dict(key="reducer", params=dict(mode=mode, workers=workers, K=K, faults=faults, spurious=sp, select=list(select), known=known), label=f"{mode}/workers={workers}/K={K}/faults={faults}/spurious={sp}", time_limit=1500 if tier == "quick" else 7200, flags=dict(loop_budget=60), tag=f"{mode}/{workers}"))
    # a second call on the same MultiprocessingSolver object (whatever the first call left on the object must not matter)
    for prior, mode in (("solve", "solve"), ("minimize", "maximize"), ("solve", "minimize"), ("solve_abandoned", "solve"), ("solve_abandoned", "minimize")):
        workers, K, sp = (2, 1, 1)
        jobs.append(dict(key="reducer", params=dict(mode=mode, workers=workers, K=K, faults=faults, spurious=sp, select=list(select), known=known, prior=prior), label=f"{prior}-then-{mode}/workers={workers}/K={K}/faults={faults}/spurious={sp}", time_limit=1500 if tier == "quick" else 7200, flags=dict(loop_budget=60), tag=f"{prior}-then-{mode}/{workers}"))
    for job, r in zip(jobs, chk.explore_many(jobs)):
        if not faults:
            chk.require(job["tag"], r.acc.counts.get("returned", 0) > 0, "no healthy run returned")
    chk.functions.update(["nucs.solvers.multiprocessing_solver.MultiprocessingSolver.solve", "MultiprocessingSolver.optimize", "MultiprocessingSolver.minimize", "MultiprocessingSolver.maximize", "MultiprocessingSolver.get_statistics", "sum_stats", "max_stats"])
    chk.stubs += MP_STUBS
    chk.bounds = dict(grid_workers_x_max_solutions=grid, values="objective values and the 13 statistics of every message symbolic (+-2^30)")


@check("C11")
def c11(tier, seed, only):
    from nusym import h_mp  # noqa

    chk = Check("C11", tier, seed)
    _reducer_runs(chk, tier, ["C11"], faults=False)
    chk.assumptions += [
        "real multiprocessing.Queue delivers each producer's messages in order and loses none (FIFO per producer); pickling by the feeder thread is outside the claim",
        "sequential equivalence is obtained by composition with C12 (the parts partition the space) and C02 (each worker enumerates its part exactly)",
    ]
    return chk.finish({})


@check("C18")
def c18(tier, seed, only):
    from nusym import h_mp  # noqa

    chk = Check("C18", tier, seed, level="fault_enumeration")
    _reducer_runs(chk, tier, ["C18"], faults=True)
    nf = sum(r["counts"].get("faulty-run-terminated", 0) + r["counts"].get("hang", 0) for r in chk.runs)
    chk.require("C18", nf > 0, "no faulty run explored")
    chk.assumptions += ["a dead worker puts nothing more; messages it put before dying are delivered; the operating system is not in the claim (replay uses real processes killed at the recorded point)"]
    chk.extra_cov.update(evaluations=max(1, chk.res.stats["paths"]), distinct_nontrivial=max(2, nf), rule="one evaluation = one feasible (stream lengths x death points x schedule x spurious-timeout) combination, enumerated by solver-driven forking; non-trivial = at least one worker dies before its completion marker")
    return chk.finish({})


@check("C19")
def c19(tier, seed, only):
    from nusym import h_stack, h_heur  # noqa

    chk = Check("C19", tier, seed)
    heights = [4, 5, 8, 255, 256] if tier == "quick" else [4, 5, 6, 8, 16, 128, 255, 256]
    ctor_heights = [1, 2, 3, 4, 5, 128, 255, 256, 257, 258, 512]
    heurs = h_heur.HEUR_NAMES
    jobs = []
    for h in ctor_heights:
        jobs.append(dict(key="stack_ctor", params=dict(height=h), label=f"ctor/H={h}", serial=True))
        if h in (4, 255, 256, 257):
            jobs.append(dict(key="stack_ctor", params=dict(height=h, cons="shaving"), label=f"ctor/H={h}/shaving", serial=True))
            jobs.append(dict(key="stack_ctor", params=dict(height=h, cons="shaving", heur="mid_value"), label=f"ctor/H={h}/shaving/mid_value", serial=True))
            jobs.append(dict(key="stack_ctor", params=dict(height=h, heur="mid_value"), label=f"ctor/H={h}/mid_value", serial=True))
    for h in heights:
        for heur in heurs:
            if only and heur not in only:
                continue
            jobs.append(dict(key="stack_step", params=dict(height=h, heur=heur), label=f"step/H={h}/{heur}"))
        jobs.append(dict(key="stack_shave", params=dict(height=h), label=f"shave/H={h}"))
    chain = [(4, 1), (4, 2), (5, 2), (5, 3), (6, 3), (6, 4), (7, 4)] if tier == "quick" else [(4, 1), (4, 2), (5, 2), (5, 3), (6, 3), (6, 4), (7, 4), (7, 5), (8, 5), (8, 6)]
    for h, n in chain:
        for heur in heurs:
            if only and heur not in only:
                continue
            for shaving in (False, True):
                if shaving and heur not in ("min_value", "mid_value"):
                    continue
                jobs.append(dict(key="stack_chain", params=dict(height=h, nvars=n, heur=heur, shaving=shaving), label=f"chain/H={h}/n={n}/{heur}/shaving={shaving}"))
    chk.explore_many(jobs)
    pushed = sum(v for r in chk.runs for k, v in r["counts"].items() if k.startswith("pushed:"))
    refused = sum(v for r in chk.runs for k, v in r["counts"].items() if k.startswith("refused:"))
    chk.require("C19", pushed > 0, "no search step pushed a choice point")
    chk.extra_cov.update(steps_pushed=pushed, refusals=refused)
    chk.functions.update(["nucs.solvers.backtrack_solver.solve_one", "BacktrackSolver.__init__", "nucs.solvers.choice_points.cp_put", "cp_init", "the five value heuristics", "nucs.solvers.shaving_consistency_algorithm.shave_bound"])
    chk.bounds = dict(step_heights=heights, constructor_heights=ctor_heights, end_to_end_chains_height_x_vars=chain, top="symbolic in [0,H) for H <= 16; for taller stacks the levels {0,1,H/2,H-5..H-1}")
    chk.stubs += ["consistency algorithm inside the step harness: answers UNBOUND once, then the run is cut", "bound_consistency_algorithm inside shave_bound: any status, writes nothing"]
    chk.assumptions += [
        "a capacity problem counts as reported only if the SOURCE raises; an index or dtype obligation failing in the stand-in array is a violation (compiled code has no bounds check)",
        "outside the claim: 8/16-bit limits on the numbers of variables, propagators and parameters in Problem.init (needs containers whose length is the variable; len() cannot be symbolic)",
        "the levels at which a consistency algorithm can be entered (top <= H-2) are derived from the step harness and assumed by the shaving harness",
    ]
    return chk.finish({})


from . import solvefam  # noqa: E402

OPT_MODELS = ["lt", "sum_eq", "alldiff3", "max_eq", "obj_under_leq", "obj_shared_offset", "free2", "restart2", "shared_twice", "dummy_only", "geq_leq", "count", "relation", "element_iv", "noncoprime_eq", "restart3"]


def _orders(n, tier):
    """posting orders other than the identity: all of them up to 3 constraints; for 4 and more the reversal and the two rotations
    in the quick tier (every constraint is first once and last once), all in the thorough tier"""
    import itertools

    perms = [list(o) for o in itertools.permutations(range(n))][1:]
    if n <= 3 or tier != "quick":
        return perms
    ident = list(range(n))
    return [ident[::-1], ident[1:] + ident[:1], ident[-1:] + ident[:-1]]


def _objectives(name):
    from nusym import h_solve

    return range(len(h_solve.MODELS[name]["vars"]))


@check("C01")
def c01(tier, seed, only):
    chk = Check("C01", tier, seed)
    runs = solvefam.plan(tier, seed, models=only, underdetermined=True)
    d = solvefam.Deferred(chk).add(["C01"], runs)
    # results of optimisation and of the multiprocessing workers are assignments too
    for name in OPT_MODELS if tier != "quick" else OPT_MODELS[:8]:
        if only and name not in only:
            continue
        for mode in ("minimize", "maximize"):
            d.add(["C01", "C07"], [(name, {})], mode=mode, objective=0)
        d.add(["C01"], [(name, {})], mode="solve_q")
    batch = d.run()
    chk.assumptions.append("multiprocessing solver: the worker entry points are run against a collecting queue here; that the parent yields exactly the workers' messages is C11")
    return chk.finish({"solve": batch})


@check("C02")
def c02(tier, seed, only):
    from nusym import h_solve

    chk = Check("C02", tier, seed)
    runs = solvefam.plan(tier, seed, models=only)
    d = solvefam.Deferred(chk).add(["C02", "C01"], runs)
    # four values per domain: the three-way split of mid_value / min_cost leaves a non-singleton part on each side
    if not only or "obj_under_leq" in only:
        d.add(["C02", "C01"], [("obj_under_leq", dict(domh="mid")), ("obj_under_leq", dict(domh="cost", table=1)), ("obj_under_leq", dict(domh="mid", cons="shaving"))], D=3)
    # a static variable order given through decision_domains (reversed), with both consistency algorithms
    for name, dec in (("alldiff3", [2, 1, 0]), ("lt", [1, 0]), ("alldiff_lt", [2, 0, 1])):
        if not only or name in only:
            d.add(["C02", "C01"], [(name, dict(decision=dec)), (name, dict(decision=dec, cons="shaving"))])
    # every order in which the constraints were posted
    import itertools

    for name, md in h_solve.MODELS.items():
        if (only and name not in only) or (tier == "quick" and md.get("thorough_only")):
            continue
        n = len(md["props"])
        if n >= 2:
            for order in _orders(n, tier):
                d.add(["C02", "C01"], [(name, {})], order=list(order))
    batch = d.run()
    chk.assumptions.append("'the same multiset for every configuration and posting order' holds because every run is compared with the same semantic set {x in box | all documented relations hold} by a z3 query (exactly once + complete)")
    return chk.finish({"solve": batch})


@check("C03")
def c03(tier, seed, only):
    chk = Check("C03", tier, seed)
    d = solvefam.Deferred(chk)
    pw = solvefam.pairwise_configs()
    k = seed
    for name in OPT_MODELS:
        if only and name not in only:
            continue
        for obj in _objectives(name):
            for mode in ("minimize", "maximize"):
                cfgs = [{}]
                if tier != "quick" or obj == 0:
                    cfgs.append(pw[k % len(pw)])
                    k += 1
                for cfg in cfgs:
                    d.add(["C03", "C01", "C07"], [(name, cfg)], mode=mode, objective=obj)
        d.add(["C03", "C01", "C11"], [(name, {})], mode="minimize_q", objective=0)
        d.add(["C03", "C01", "C11"], [(name, {})], mode="maximize_q", objective=len(list(_objectives(name))) - 1)
    batch = d.run()
    chk.assumptions += [
        "unwinding assertion: optimize() calls solve_one at most width+3 times (width = D+1 values of the objective's domain); exceeding it is reported",
        "distributed optimisation = the worker loop optimize_and_queue (run here against a collecting queue) + the reducer (C11) + the split (C12)",
    ]
    return chk.finish({"solve": batch})


@check("C04")
def c04(tier, seed, only):
    from nusym import h_heur

    chk = Check("C04", tier, seed)
    # (ii) every propagator under its loop budget 50 (n+m+6)^2, incl. infeasible capacities
    batch = propfam.run_catalogue(chk, ["C04"], algs=only)
    # (i)(iii)(iv) whole runs: pops per pass <= 4(P+1)(S+2), optimize rounds <= width+3, while-iterations <= 6000
    runs = solvefam.plan(tier, seed, models=only)
    d = solvefam.Deferred(chk).add(["C04"], runs)
    for name, dec in (("alldiff3", [2, 1, 0]), ("lt", [1, 0]), ("alldiff_lt", [2, 0, 1]), ("max_eq", [1, 2, 0])):
        if not only or name in only:
            d.add(["C04"], [(name, dict(decision=dec)), (name, dict(decision=dec, cons="shaving")), (name, dict(decision=dec, cons="shaving", domh="max"))])
    for name in OPT_MODELS[:9] if tier == "quick" else OPT_MODELS:
        if only and name not in only:
            continue
        objs = list(_objectives(name)) if name in ("obj_shared_offset", "shared_twice", "free2", "dummy_only") else [len(list(_objectives(name))) - 1]
        for obj in objs:
            for mode in ("minimize", "maximize"):
                d.add(["C04"], [(name, {})], mode=mode, objective=obj)
    batch2 = d.run()
    # the variable heuristics never answer "none" (-1) while a decision variable is free
    jobs = []
    for vname in h_heur.VARH_NAMES:
        if only and vname not in only:
            continue
        small = vname == "max_regret" and tier == "quick"
        jobs.append(dict(key="varheur", params=dict(vname=vname, select=["C04"], W=3 if small else 4), label=f"varheur/{vname}", time_limit=900 if tier == "quick" else 3600, vname=vname))
        chk.functions.add(f"nucs.heuristics.{vname}_var_heuristic.{vname}_var_heuristic")
    for job, r in zip(jobs, chk.explore_many(jobs)):
        chk.require(job["vname"], r.acc.counts.get("returned", 0) > 0, "never returned")
    chk.assumptions += [
        "unwinding assertions (checked, not assumed): while-iterations per compute_domains call <= 50 (n+m+6)^2; propagators popped per propagation pass <= 4 (P+1)(S+2) with P constraints and total domain size S; solve_one calls per optimisation <= width+3; while-iterations per whole run <= 6000",
        "a path that exhausts a budget is turned into a concrete instance and replayed on the real build under a wall-clock watchdog; only a reproduced non-termination is reported",
    ]
    return chk.finish({"prop": batch, "solve": batch2})


@check("C17")
def c17(tier, seed, only):
    chk = Check("C17", tier, seed)
    runs = solvefam.plan(tier, seed, models=only)
    d = solvefam.Deferred(chk).add(["C17"], runs)
    for name in ("lt", "alldiff3", "queens_like", "count", "circuit3"):
        if only and name not in only:
            continue
        for k in (1, 2):
            d.add(["C17"], [(name, {}), (name, dict(domh="mid"))], partial=k)
        d.add(["C17"], [(name, {})], mode="minimize", objective=0)
    batch = d.run()
    chk.stubs.append("ghost counters: interposed wrappers around every COMPUTE_DOMAINS_FCTS entry (calls, returned status, whether the domains changed), every DOM_HEURISTIC_FCTS entry (choices, deepest level), CONSISTENCY_ALG_FCTS entries and the BC call inside shaving (passes), backtrack (resumed choice points)")
    chk.assumptions += [
        "with shaving, SOLVER_CHOICE_NB / SOLVER_BACKTRACK_NB / SOLVER_CHOICE_DEPTH are not compared (shaving uses the same primitives internally); the propagator counters and ALG_BC_NB are",
        "'each total is the sum over workers' is decided on the reducer in C11 (statistics-not-the-sum-of-final-vectors)",
    ]
    return chk.finish({"solve": batch})


def _lemma_cfgs(tier, algs=None):
    from nusym import catalogue

    out = []
    for cfg in catalogue.prop_catalogue(tier):
        if algs and cfg["alg"] not in algs:
            continue
        if cfg.get("only") or cfg.get("pin"):
            continue  # configurations reserved for some of the single-call properties
        out.append(cfg)
    return out


NARROW_MASK = {"affine_leq", "affine_geq", "max_leq", "min_geq", "no_sub_cycle"}
MONO_DIRECT = {"and", "affine_leq", "affine_geq", "count_eq", "element_iv", "element_lic", "element_liv", "exactly_eq", "exactly_true", "lexicographic_leq", "max_eq", "max_leq", "min_eq", "min_geq", "relation"}


@check("C08")
def c08(tier, seed, only):
    from nusym import h_lemma, h_solve  # noqa

    chk = Check("C08", tier, seed)
    # layer 1: trigger sufficiency (only the propagators with a narrow mask have anything to show)
    jobs = []
    for cfg in _lemma_cfgs(tier):
        if cfg["n"] > (3 if tier == "quick" else 4) or cfg["alg"] == "dummy":
            continue
        if only and cfg["alg"] not in only:
            continue
        jobs.append(dict(key="lemma_trigger", params=dict(cfg=cfg, known=chk.known), label=f"trigger/{cfg['alg']}/n={cfg['n']}/{cfg['params']}", alg=cfg["alg"]))
    n_trig = len(jobs)
    # layer 4 (ii): monotonicity of the exact propagators (direct two-box query; alldifferent/gcc by C14, see DESIGN)
    for cfg in _lemma_cfgs(tier):
        if cfg["alg"] not in MONO_DIRECT or cfg["n"] > (3 if tier == "quick" else 4) or len(cfg["params"]) > 4:
            continue
        if only and cfg["alg"] not in only:
            continue
        if tier == "quick" and cfg["alg"] in ("exactly_eq", "relation", "element_iv") and cfg["n"] >= 3:
            continue
        jobs.append(dict(key="lemma_mono", params=dict(cfg=cfg), label=f"mono/{cfg['alg']}/n={cfg['n']}/{cfg['params']}"))
    # layer 2: queue-invariant step of the real loop
    step_models = ["lt", "geq_leq", "alldiff_lt", "max_leq_min_geq", "queens_like", "shared_offset_lt", "shared_twice", "magic_like", "circuit3", "circuit3_twice", "and_true", "sum_eq", "circuit3_alias", "shared_twice_rev", "same_var_twice", "config3"]
    for name in step_models:
        if only and name not in only:
            continue
        jobs.append(dict(key="lemma_bcstep", params=dict(model=name), label=f"bcstep/{name}"))
    for job, r in list(zip(jobs, chk.explore_many(jobs)))[:n_trig]:
        chk.require(job["alg"], r.acc.counts.get("stable-on-B", 0) > 0 or r.acc.counts.get("full-mask", 0) > 0, "no stable box explored")
        if job["alg"] in NARROW_MASK:
            chk.require(job["alg"], r.acc.counts.get("full-mask", 0) == 0, "expected a narrow wake-up mask")
    # layer 3: every consistency pass of whole runs (root, after each branch, after each backtrack)
    runs = solvefam.plan(tier, seed, models=only, extra_default=True)
    if tier == "quick":
        runs = [r for r in runs if not r[1] or r[1].get("cons") == "shaving" or r[1].get("decision")][: 2 * len(h_solve.MODELS)]
    if tier == "quick" and (not only or "circuit3_alias" in only):
        runs.append(solvefam.ALIAS_RUN)  # the model is in the thorough plan; this one run (decisions on the table first) also in quick
    batch = solvefam.run_plan(chk, ["C08"], runs)
    chk.functions.update(["get_triggers_* of the narrow-mask constraints", "bound_consistency_algorithm (one iteration, cut at the second pop_propagator)"])
    chk.stubs += ["pop_propagator cut at its second call (isolates one iteration of the real loop body)"]
    chk.assumptions += [
        "'largest common fixpoint whatever the order' = stability at exit (layers 2-3) + monotonicity of each exact propagator (layer 4; alldifferent and gcc through C14: an operator returning exactly the hull of the supported tuples is monotone) + the frame fact of layer 2, combined by the chaotic-iteration theorem (Apt 1999), which is cited, not mechanised",
        "the queue-invariant step starts from an arbitrary state satisfying the invariant; a counterexample from a state no history reaches would be a lemma weakness (advisory), it is reported only if it reproduces through the public API",
    ]
    return chk.finish({"solve": batch})


def load_known(pid):
    from nusym.runner import load_known as lk

    return lk(pid)


TWINS = {
    # name: (model A, model B)  -- B is a rewriting of A with the same meaning
    "shared_vs_linked": ("twin_shared", "twin_linked"),
    "posted_twice": ("alldiff_lt", "alldiff_lt_twice"),
    "plus_dummy": ("max_eq", "max_eq_dummy"),
    "plus_true": ("lt", "lt_true"),
}


def _install_twin_models():
    from nusym import h_solve

    M = h_solve.MODELS
    S = ["s"]
    M.setdefault("twin_shared", dict(doms=2, vars=[(0, 0), (0, "o0"), (1, 0)], props=[([1, 2], "affine_leq", [1, -1, 0]), ([0, 2], "alldifferent", [])]))
    # the same model with a separate variable v1 linked to v0 by v1 - v0 = o  (offset as a parameter of the equality)
    M.setdefault("twin_linked", dict(doms=3, vars=[(0, 0), (1, 0), (2, 0)], props=[([1, 2], "affine_leq", [1, -1, 0]), ([0, 2], "alldifferent", []), ([1, 0], "affine_eq", [1, -1, ["s", -2, 2]])], D=2))
    M.setdefault("alldiff_lt_twice", dict(doms=3, vars=[(0, 0), (1, 0), (2, 0)], props=[([0, 1, 2], "alldifferent", []), ([0, 2], "affine_leq", [1, -1, -1]), ([0, 1, 2], "alldifferent", []), ([0, 2], "affine_leq", [1, -1, -1])]))
    M.setdefault("max_eq_dummy", dict(doms=3, vars=[(0, 0), (1, 0), (2, 0)], props=[([0, 1, 2], "max_eq", []), ([0, 1, 2], "dummy", [])]))
    M.setdefault("lt_true", dict(doms=2, vars=[(0, 0), (1, 0)], props=[([0, 1], "affine_leq", [1, -1, -1]), ([0, 1], "affine_leq", [0, 0, 0])]))
    # a variable with a zero coefficient: its wake-up mask is whatever get_triggers leaves in that cell
    M.setdefault("lt_zero_mid", dict(doms=3, vars=[(0, 0), (1, 0), (2, 0)], props=[([0, 1, 2], "affine_leq", [1, 0, -1, -1])], D=1))
    M.setdefault("lt_swapped", dict(doms=2, vars=[(1, 0), (0, 0)], props=[([1, 0], "affine_leq", [1, -1, -1])]))
    # two constraints of the same type and arity whose complexities differ (relation: 3 x number of parameters), around a third one
    M.setdefault("two_relations", dict(doms=2, vars=[(0, 0), (1, 0)], props=[([0, 1], "relation", [0, 1, 1, 0, 1, 2, 2, 1, 0, 2]), ([0, 1], "alldifferent", []), ([1, 0], "relation", [S] * 2)], base=0))
    M.setdefault("relation_alldiff", dict(doms=2, vars=[(0, 0), (1, 0)], props=[([0, 1], "relation", [0, 1, 1, 0, 1, 2, 2, 1]), ([0, 1], "alldifferent", [])], base=0))


_install_twin_models()


@check("C13")
def c13(tier, seed, only):
    from nusym import h_lemma, h_solve  # noqa
    import itertools

    chk = Check("C13", tier, seed)
    # lemma 1: Problem.init flattening, every posting order
    jobs = []
    for name, md in h_solve.MODELS.items():
        if (only and name not in only) or (tier == "quick" and md.get("thorough_only")):
            continue
        n = len(md["props"])
        orders = [None] if n < 2 else [list(o) for o in itertools.permutations(range(n))][: (6 if tier == "quick" else 24)]
        for order in orders:
            jobs.append(dict(key="lemma_init", params=dict(model=name, order=order), label=f"init/{name}/order={order}", name=name))
    n_init = len(jobs)
    # lemma 3: translation invariance of one filtering call, c symbolic and unbounded
    for cfg in _lemma_cfgs(tier):
        f = h_lemma.TRANSLATION_INVARIANT.get(cfg["alg"])
        if f is None or cfg["n"] > (3 if tier == "quick" else 4) or (cfg["alg"] == "gcc" and (tier == "quick" and cfg["n"] >= 3)):
            continue
        if cfg["alg"] == "alldifferent" and cfg["n"] > 3:
            continue  # two runs of alldifferent n=4 square ~10^6 paths: outside the thorough budget (measured)
        if only and cfg["alg"] not in only:
            continue
        if cfg["alg"] == "gcc":
            continue  # the box contract of gcc pins the values to [v0, v0+m): translation is covered by the symbolic-v0 run of the thorough tier
        jobs.append(dict(key="lemma_transl", params=dict(cfg=cfg), label=f"transl/{cfg['alg']}/n={cfg['n']}/{cfg['params']}"))
    # the model-building API: add_variable / add_variables write down the model they are given
    from nusym import h_build

    if not only or "build" in only:
        for scn in h_build.SCENARIOS:
            jobs.append(dict(key="lemma_build", params=dict(scenario=scn, known=[k for k in chk.known if k.get("harness") == "build"]), label=f"build/{scn}"))
    for job, r in list(zip(jobs, chk.explore_many(jobs)))[:n_init]:
        chk.require(job["name"], r.acc.counts.get("init-ok", 0) > 0 or any(k.startswith("violation") for k in r.acc.counts), "init never completed")
    # twin micro-models: both formulations are compared with the same semantic set (C02's exactly-once + complete query)
    d = solvefam.Deferred(chk)
    twin_models = sorted({m for pair in TWINS.values() for m in pair} | {"lt_swapped", "shared_twice_rev", "shared_twice_eq_rev", "abs_diff"})
    for name in twin_models:
        if only and name not in only:
            continue
        d.add(["C01", "C02"], [(name, {}), (name, dict(cons="shaving", domh="mid"))])
        objs = list(_objectives(name)) if name in ("twin_shared", "twin_linked", "lt_swapped") else [0]
        for obj in objs:
            for mode in ("minimize", "maximize"):
                d.add(["C03", "C01"], [(name, {})], mode=mode, objective=obj)
    # permuting constraints
    for name, md in h_solve.MODELS.items():
        if (only and name not in only) or (tier == "quick" and md.get("thorough_only")):
            continue
        n = len(md["props"])
        if 2 <= n <= 3 and name not in twin_models:
            for order in list(itertools.permutations(range(n)))[1:]:
                d.add(["C01", "C02"], [(name, {})], order=list(order))
    batch = d.run()
    chk.assumptions += [
        "twin formulations (shared domain + offset vs separate variables linked by an equality; a constraint posted twice; an added dummy / always-true constraint; permuted constraints or variables) have the same semantic set by construction; each formulation is decided equal to that set by z3 (exactly once + complete), hence equal to each other; optima likewise",
        "'shipped examples at sizes far beyond brute force' is outside the claim: whole searches are explored symbolically only for micro-models; the size-independent part are the lemmas (init flattening, offset write-back via the shared_twice/queens_like models, translation)",
    ]
    return chk.finish({"solve": batch})


@check("C10")
def c10(tier, seed, only):
    from nusym import h_shave, h_solve  # noqa

    chk = Check("C10", tier, seed)
    models = ["lt", "sum_eq", "geq_leq", "alldiff3", "alldiff_lt", "max_eq", "max_leq_min_geq", "queens_like", "shared_twice", "magic_like", "count", "element_liv", "lex", "relation", "and_true", "gcc", "circuit3", "noncoprime_eq", "lin3", "eq_diff_free"]
    if tier == "quick":
        models = [m for m in models if m not in ("count", "gcc")]
    jobs = []
    for name in models:
        if only and name not in only:
            continue
        for state in ("root", "after_choice"):
            jobs.append(dict(key="shave_vs_bc", params=dict(model=name, state=state), label=f"shave_vs_bc/{name}/{state}", tag=f"{name}/{state}"))
    # decision domains that are not a prefix of the shared domains (auxiliary variables stored first, a permuted subset)
    for name, dec in (("alldiff3", [1, 2]), ("alldiff_lt", [2, 1]), ("max_eq", [1, 2]), ("lin3", [2]), ("circuit3", [1, 2]), ("queens_like", [1])):
        if only and name not in only:
            continue
        for state in ("root", "after_choice"):
            jobs.append(dict(key="shave_vs_bc", params=dict(model=name, state=state, decision=dec), label=f"shave_vs_bc/{name}/{state}/decision={dec}", tag=f"{name}/{state}/{dec}"))
    jobs.append(dict(key="shave_bound", params=dict(height=5), label="shave_bound/BC-contract-stub"))
    rs = chk.explore_many(jobs)
    for job, r in list(zip(jobs, rs))[:-1]:
        chk.require(job["tag"], any(k.startswith("status:") or k == "root-not-unbound" for k in r.acc.counts), "never returned")
    r = rs[-1]
    chk.require("shave_bound", r.acc.counts.get("shaved:True", 0) > 0 and r.acc.counts.get("shaved:False", 0) > 0, "both verdicts must be reached")
    # C: a solver using shaving enumerates exactly the semantic set and finds the optimum (hence the same as with BC: C02/C03)
    runs = [(n, dict(cons="shaving", varh=v, domh=d)) for n, v, d in [("lt", "first", "min"), ("alldiff3", "smallest", "max"), ("queens_like", "first", "mid"), ("max_eq", "greatest", "split"), ("shared_twice", "first", "min"), ("circuit3", "first", "max"), ("count", "first", "mid"), ("geq_leq", "smallest", "split"), ("eq_diff_free", "first", "min"), ("eq_diff_free", "first", "max"), ("eq_diff_free", "smallest", "min")]]
    runs += [("alldiff3", dict(cons="shaving", decision=[2, 1, 0])), ("alldiff_lt", dict(cons="shaving", decision=[2, 0, 1]))]
    if only:
        runs = [x for x in runs if x[0] in only]
    d_ = solvefam.Deferred(chk).add(["C01", "C02"], runs)
    for n in ("lt", "sum_eq", "max_eq", "obj_under_leq"):
        if only and n not in only:
            continue
        for mode in ("minimize", "maximize"):
            d_.add(["C03", "C01"], [(n, dict(cons="shaving"))], mode=mode, objective=0)
    batch = d_.run()
    chk.functions.update(["shaving_consistency_algorithm", "shave_bound", "bound_consistency_algorithm", "min_value_dom_heuristic", "max_value_dom_heuristic", "first_not_instantiated_var_heuristic", "backtrack"])
    chk.stubs.append("inside the shave_bound lemma only: bound_consistency_algorithm replaced by its contract (any status; may only shrink the current level and clear flags of the current level)")
    chk.assumptions += ["search states: the root and the state after propagation + one min-value branch on the first free variable", "shaving is documented as experimental; its own statistics are not part of this property"]
    return chk.finish({"solve": batch})


@check("C16")
def c16(tier, seed, only):
    from nusym import h_heur

    chk = Check("C16", tier, seed)
    batch = propfam.run_catalogue(chk, ["C16"], algs=only)
    jobs = [dict(key="heur", params=dict(hname=hname, select=["C16"], table=0), label=f"heur/{hname}") for hname in h_heur.HEUR_NAMES]
    jobs += [dict(key="varheur", params=dict(vname=vname, select=["C16"], W=3 if (vname == "max_regret" and tier == "quick") else 4), label=f"varheur/{vname}") for vname in h_heur.VARH_NAMES]
    chk.explore_many(jobs)
    runs = solvefam.plan(tier, seed, models=only)
    batch2 = solvefam.run_plan(chk, ["C16"], runs)
    ob = chk.res.obligations
    chk.require("C16", ob["index_checks"] > 1000, "index obligations were not generated")
    chk.extra_cov.update(obligations=ob["index_checks"] + ob["sym_index_checks"], discharged=ob["index_checks"] + ob["sym_index_checks"] - sum(1 for v in chk.violations if v.get("prop") == "C16"))
    chk.assumptions += [
        "every subscript executed on every explored path is an obligation: a concrete index is tested at once, a symbolic index by the query PC and (i < -len or i >= len); negative in-range indices wrap as in NumPy/Numba and are counted (negative_index_uses)",
        "contracts: successor values within [0,n); gcc values within [v0, v0+m); cost tables cover the values of the domains; search depth fits the stack (the converse is C19)",
        "outside the claim: n, m beyond the catalogue (the '2n+2' and 'm+6' sizing arguments are checked for those n, m only); int16 paths / uint16 ranks limits",
    ]
    return chk.finish({"prop": batch, "solve": batch2})


@check("C15")
def c15(tier, seed, only):
    from nusym import h_solve, h_prop, h_stack  # noqa

    chk = Check("C15", tier, seed, level="other")
    # (a) no dependence on how argsort breaks ties
    tie_cfgs = [dict(alg="alldifferent", n=2, params=[]), dict(alg="alldifferent", n=3, params=[]), dict(alg="gcc", n=2, params=[0, ["s", 0, 2], ["s", 0, 2], ["s", 1, 2], ["s", 1, 2]]), dict(alg="gcc", n=3, params=[0, 0, 1, 0, 3, 1, 1])]
    if tier != "quick":
        tie_cfgs += [dict(alg="gcc", n=3, params=[0, 1, 0, 1, 2, 1, 2]), dict(alg="gcc", n=3, params=[0, 0, 0, 0, 2, 2, 2])]
    jobs = []
    for cfg in tie_cfgs:
        if only and cfg["alg"] not in only:
            continue
        jobs.append(dict(key="prop_ties", params=dict(cfg=cfg), label=f"ties/{cfg['alg']}/n={cfg['n']}/{cfg['params']}", flags=dict(loop_budget=4000)))
    # (b) no dependence on uninitialised memory, (c) history independence
    hist = [["other_solver_abandoned"], ["other_solver_exhausted"], ["minimize_first"], ["register_extras"], ["split"], ["init_twice"], ["other_solver_abandoned", "register_extras"], ["minimize_first", "other_solver_exhausted"], ["sibling_problem"], ["sibling_problem", "other_solver_abandoned"], ["other_solver_abandoned", "then_split_part0"], ["minimize_first", "then_split_part0"]]
    models = ["lt", "alldiff3", "queens_like", "shared_twice", "count", "circuit3", "max_eq", "magic_like", "relation_alldiff", "element_iv", "gcc", "lt_zero_mid"]
    if tier == "quick":
        models = ["lt", "alldiff3", "shared_twice", "circuit3", "magic_like", "relation_alldiff", "lt_zero_mid"]
    batch = []
    cfgs = [{}, dict(cons="shaving", domh="mid"), dict(varh="smallest", domh="max")]
    k = seed
    n_ties = len(jobs)
    for name in models:
        if only and name not in only:
            continue
        for hi_, h in enumerate(hist):
            if tier == "quick" and name in ("alldiff3", "circuit3") and hi_ % 2 == (seed + len(name)) % 2:
                continue  # the two larger models take half of the histories each in the quick tier
            cfg = cfgs[k % len(cfgs)]
            k += 1
            jobs.append(dict(key="history", params=dict(model=name, history=h, cfg=cfg), label=f"history/{name}/{'+'.join(h)}/{cfg or 'default'}", flags=dict(loop_budget=12000)))
    n_hist = len(jobs)
    # (d) mode hazards: concrete values read from uint8/uint16/int16/int32 arrays carry their type; when the exact result of an
    # arithmetic operation (what Numba's 64-bit widening computes) does not fit the type NumPy's scalar arithmetic gives it
    # in interpreted mode, the path's witness is run in both modes on the real build and the outcomes must be equal
    hz_flags = dict(track_dtypes=True)
    from nusym import catalogue

    for cfg in _lemma_cfgs(tier):
        if cfg["alg"] not in ("alldifferent", "gcc", "no_sub_cycle", "scc") or cfg["n"] > 3:
            continue
        if cfg["alg"] == "gcc" and cfg["n"] == 3 and tier == "quick" and cfg["params"] != [0, 0, 1, 0, 3, 1, 1]:
            continue
        jobs.append(dict(key="prop", params=dict(cfg=cfg, select=["C15"], known=[k for k in load_known("C04") if k.get("harness", "prop") == "prop"]), label=f"hazards/{cfg['alg']}/n={cfg['n']}/{cfg['params']}", flags=dict(hz_flags, loop_budget=catalogue.loop_budget(cfg))))
    for h_, n_ in ((8, 4), (8, 5), (256, 253), (256, 254)) if tier == "quick" else ((8, 4), (8, 5), (255, 252), (256, 252), (256, 253), (256, 254), (256, 255)):
        for heur in ("min_value", "mid_value") if (tier != "quick" or h_ < 100) else ("min_value",):
            jobs.append(dict(key="stack_chain", params=dict(height=h_, nvars=n_, heur=heur, shaving=False, prop="C15", fixed_width=1 if heur == "min_value" else 2), label=f"hazards/chain/H={h_}/n={n_}/{heur}", flags=hz_flags, serial=True, time_limit=1200))
    rs = chk.explore_many(jobs)
    for r in rs[n_ties:n_hist]:
        batch.extend(r.acc.validate[:12])
    # earlier use of ONE MultiprocessingSolver object (a completed call, an enumeration the caller walked away from) must not change
    # what the next call on it returns: the reducer against the scheduler model, the queue OBJECT keeps what nobody read
    from nusym import h_mp  # noqa

    if not only or "reducer" in only:
        pj = [dict(key="reducer", params=dict(mode=mode_, workers=2, K=1, faults=False, spurious=1, select=["C11"], known=[], prior=prior_), label=f"history/{prior_}-then-{mode_} on one MultiprocessingSolver object", time_limit=1500, flags=dict(loop_budget=60)) for prior_, mode_ in (("solve_abandoned", "solve"), ("solve_abandoned", "minimize"), ("solve", "solve"), ("minimize", "maximize"))]
        for r_ in chk.explore_many(pj):
            for v_ in r_.new_violations:
                v_["query_family"], v_["prop"] = v_.get("prop"), "C15"
        chk.functions.update(["nucs.solvers.multiprocessing_solver.MultiprocessingSolver.__init__/solve/optimize"])
    d = solvefam.Deferred(chk).add(["C15"], [(n, {}) for n in models])
    d.add(["C15"], [(n, {}) for n in ("alldiff3", "circuit3", "gcc", "queens_like")], flags_extra=hz_flags)
    batch += d.run()
    chk.tier_validate_jit = True
    chk.extra_cov["explanation"] = (
        "Decided by symbolic execution of the source (interpreted semantics): on every path (1) solutions and statistics contain no cell of an np.empty array (all such cells are unconstrained symbols), "
        "(2) a filtering call returns the same result for every permutation argsort may return on ties, (3) a fresh solver on a fresh problem and a solver created after a history of earlier solver "
        "constructions, partial/complete enumerations, an optimisation, registrations, split() and a second init() yield the same solution sequence (z3 equality of the terms) and the same statistics, "
        "the problem object keeps its meaning, mutable default arguments are not mutated; (4) mode hazards: every concrete value read from a narrow typed array carries its dtype, an operation whose exact (Numba: 64-bit) result does not fit the type NumPy's scalar arithmetic would give it marks the path, and the path's witness is then run on the real build in both modes: differing outcomes are a violation, equal outcomes are listed as benign. NOT decided: that the Numba-compiled code computes what the source says (no tool here executes Numba's LLVM IR "
        "symbolically); as supporting evidence only, every path witness is re-run on the real build in BOTH modes and must give the predicted solution sequence and statistics."
    )
    chk.assumptions += ["JIT vs interpreted equivalence is NOT claimed as solver-decided (see explanation); cross-process effects (Numba cache files) are outside"]
    return chk.finish({"solve": batch}, both_modes=True)


@check("C20")
def c20(tier, seed, only):
    from nusym import h_models, h_golomb  # noqa: every harness module is imported before the worker pool is forked

    chk = Check("C20", tier, seed, level="other")
    rep = h_models.run_all(tier, only)
    chk.res.stats["paths"] += len(rep.items)
    chk.res.stats["prop_queries"] += rep.queries
    chk.res.stats["checks"] += rep.queries
    chk.res.stats["solver_s"] += rep.solver_s
    for v in rep.violations:
        # replay = the real solver on the instances of that model (counts / optima derived from the definition)
        v["instances"] = [i for i in rep.instances if i["model"] == v["model"] or i["model"].startswith(v["model"])]
    chk.violations.extend(rep.violations)
    chk.inconclusive.extend(rep.inconclusive)
    if not only or "knapsack" in only:
        for n_ in (2, 3) if tier == "quick" else (2, 3, 4):
            r_ = chk.explore("model_knapsack", dict(n=n_), f"knapsack/symbolic volumes and capacity/n={n_}")
            chk.require("knapsack", r_.acc.counts.get("constructor-path", 0) > 0, "constructor never returned")
    if not only or "latin_givens" in only:
        for n_, b_ in ((3, 0), (3, 1)) if tier == "quick" else ((3, 0), (3, 1), (4, 0)):
            r_ = chk.explore("model_latin_givens", dict(n=n_, base=b_), f"latin square/symbolic givens/n={n_}/colours from {b_}")
            chk.require("latin_givens", r_.acc.counts.get("constructor-path", 0) > 0, "constructor never returned")
    if not only or "golomb" in only:
        for n_ in (4, 5) if tier == "quick" else (4, 5, 6):
            r_ = chk.explore("golomb_step", dict(mark_nb=n_), f"golomb/pruning step from any state of the search invariant/marks={n_}", time_limit=900 if tier == "quick" else 5400)
            chk.require("golomb", any(k.startswith("pruned:") for k in r_.acc.counts), "the pruning step never completed")
    chk.require("C20", len(rep.items) > 20 or only, "too few model queries")
    chk.res.acc.samples.extend(rep.items[:6])
    chk.extra_cov.update(
        model_queries=rep.items,
        evaluations=len(rep.items),
        distinct_nontrivial=len({(i["model"], str(i["size"]), i["query"]) for i in rep.items}),
        rule="one evaluation = one z3 query (implication, all-SAT count or optimisation) about the constraint network extracted from a real model constructor at one instance size; all are distinct (model, size, query) triples",
        explanation="Model-level, solver-decided: the real constructors of the shipped models are executed, their constraint network Phi is extracted from the Problem object and z3 decides Phi => definition-level validity, validity => Phi (models without symmetry breaking / with functionally determined auxiliaries), symmetry-breaking variants imply validity and preserve satisfiability / the optimum, and solution counts / optima equal the literature values. That the SEARCH returns exactly the solutions of Phi is C01/C02 (micro-models); as supporting evidence the real solver (Numba-compiled) is run on every instance under three configurations and must reproduce the counts / optima.",
    )
    chk.functions.update(["the constructors of QueensProblem, LatinSquareProblem, LatinSquareRCProblem, Quasigroup5Problem, MagicSquareProblem, MagicSequenceProblem, GolombProblem, BIBDProblem, SchurLemmaProblem, SportsTournamentSchedulingProblem, KnapsackProblem, CircuitProblem, TSPProblem, SudokuProblem, AlphaProblem, DonaldProblem"])
    chk.bounds = dict(sizes="queens<=6/8, latin<=3/4, quasigroup5 5/5-7, magic square 3/3-4, magic sequence<=8/10, golomb 3-5/3-6 marks, bibd (6,10,5,3,2) (7,7,3,3,1), schur 3,6,9 / ..14, sports 4 / 4,6, knapsack shipped, circuit<=4/6, tsp shipped 4x4, sudoku all givens (validity) + shipped grid, alpha, donald (quick/thorough)")
    chk.assumptions += ["relation encoders (nusym/relations.py) are the documented relations; they are validated against the repository's unit-test vectors by the propagator checks", "instance sizes beyond the list, and that the search returns the objects at large sizes, are outside the claim", "the Golomb custom consistency algorithm: its pruning step is executed symbolically from every state of the search invariant (4-5 marks quick, 6 thorough; BC stubbed: no ruler of the box is lost, indices in range); a counterexample is reported only if the real solver then returns a wrong optimum on 4..8 marks"]
    batch = [dict(i, harness="models") for i in rep.instances if (i.get("count") is not None or i.get("optimum") is not None or i.get("all_valid"))]
    return chk.finish({"models": batch}, both_modes=False, validate_jit_only=True)
