from nusym.runner import Check
from . import propfam

CHECKS = {}


def check(pid):
    def deco(f):
        CHECKS[pid] = f
        return f

    return deco


@check("C05")
def c05(tier, seed, only):
    chk = Check("C05", tier, seed)
    batch = propfam.run_catalogue(chk, ["C05"], algs=only)
    return chk.finish({"prop": batch})


@check("C06")
def c06(tier, seed, only):
    chk = Check("C06", tier, seed)
    batch = propfam.run_catalogue(chk, ["C06"], algs=only)
    return chk.finish({"prop": batch})


@check("C14")
def c14(tier, seed, only):
    chk = Check("C14", tier, seed)
    batch = propfam.run_catalogue(chk, ["C14"], algs=only)
    return chk.finish({"prop": batch})


@check("C07")
def c07(tier, seed, only):
    chk = Check("C07", tier, seed)
    batch = propfam.run_catalogue(chk, ["C07"], algs=only)
    n_ent = sum(r["counts"].get("status:2", 0) for r in chk.runs)
    chk.require("C07", n_ent > 0, "no path answered ENTAILMENT")
    chk.extra_cov["entailment_paths"] = n_ent
    return chk.finish({"prop": batch})


HEUR_ASSUMPTIONS = [
    "the state the heuristic starts from is arbitrary (every cell of the three stacks is an unconstrained symbol of its dtype) except: the chosen domain has min < max, values within +-2^30, the stack pointer is one of the listed levels and leaves room for the push",
    "min_cost: the cost table covers the values of the domain and selectable costs are > 0 (ties allowed)",
    "stack height, number of domains (2) and propagators (2) are concrete; the watcher table of backtrack() is one of three fixed tables",
]


@check("C09")
def c09(tier, seed, only):
    from nusym import h_heur
    from nusym.runner import load_known

    chk = Check("C09", tier, seed)
    known = [k for k in load_known("C09") if k.get("harness") == "heur"]
    batch = []
    tables = (0, 1) if tier == "quick" else (0, 1, 2)
    for hname in h_heur.HEUR_NAMES:
        if only and hname not in only:
            continue
        for table in tables:
            kw = dict(hname=hname, height=5 if tier == "quick" else 6, tops=(0, 1, 2) if tier == "quick" else (0, 1, 2, 3), table=table, W=4 if tier == "quick" else 5, select=["C09"], known=known)
            r = chk.explore("heur", kw, f"{hname}/table={table}")
            pushed = [k for k in r.acc.counts if k.startswith("pushed:")]
            chk.require(hname, bool(pushed), "the heuristic never returned")
        chk.functions.add(f"nucs.heuristics.{hname}_dom_heuristic.{hname}_dom_heuristic")
    chk.explore("backtrack0", dict(), "backtrack at level 0")
    chk.functions.update(["nucs.solvers.choice_points.cp_put", "nucs.solvers.choice_points.backtrack", "nucs.heuristics.value_dom_heuristic.value_dom_heuristic", "nucs.propagators.propagators.add_propagators"])
    chk.bounds = dict(stack_height=5, start_levels=[0, 1, 2], domains=2, propagators=2, domain="[a,b], a<b, unbounded (+-2^30); min_cost: within [0,W)")
    chk.assumptions.extend(HEUR_ASSUMPTIONS)
    return chk.finish({})


@check("C12")
def c12(tier, seed, only):
    from nusym import h_split

    chk = Check("C12", tier, seed)
    batch = []
    K = 8 if tier == "quick" else 12
    for shape in h_split.SHAPES:
        if only and shape not in only:
            continue
        r = chk.explore("split", dict(shape=shape, K=K), f"split/{shape}/k<={K}")
        batch.extend(r.acc.validate)
        chk.require(shape, any(k.startswith("parts:") for k in r.acc.counts) or any(k.startswith("violation") for k in r.acc.counts), "split never returned")
    chk.functions.add("nucs.problems.problem.Problem.split")
    chk.bounds = dict(k=f"1..{K} (symbolic)", domain="[a,b] with a<=b unbounded (+-2^30), other domain [c,d], offset in [-2,2]", shapes=list(h_split.SHAPES))
    chk.assumptions += [
        "number of variables/shared domains is concrete (1-3); the layouts are: own domain, second of two own domains, two variables sharing one domain with offsets, variable index different from its shared-domain index",
        "'no two sub-problems share a solution and the union is the original solution set' is obtained by composition: the parts partition the split variable's domain (decided here) and each sub-problem is enumerated exactly (C02)",
        "an empty part is reported only if the real solver cannot digest the sub-problem (replay with a watchdog)",
    ]
    return chk.finish({"split": batch})


MP_STUBS = [
    "multiprocessing.Process -> FakeProcess (start() records, runs nothing; is_alive() False once the worker has put everything it will ever put and exited)",
    "multiprocessing.Queue -> FakeQueue driven by a nondeterministic scheduler (FIFO per worker; get() without timeout and nothing that can still arrive = blocks forever; get(timeout) then raises queue.Empty, and may do so spuriously once per run)",
    "worker streams: k solutions (k symbolic in [0,K]) then exactly one completion marker, statistics vectors symbolic and component-wise non-decreasing per worker (the worker-side contract is established on the real solve_and_queue/optimize_and_queue by the whole-run harness, C01)",
]


def _reducer_runs(chk, tier, select, faults):
    from nusym.runner import load_known

    known = [k for k in load_known(chk.pid) if k.get("harness") == "reducer"]
    grid = [(1, 2), (2, 2)] if tier == "quick" else [(1, 3), (2, 3), (3, 2)]
    if faults and tier == "quick":
        grid = [(1, 1), (2, 1)]
    elif faults:
        grid = [(1, 2), (2, 2), (3, 1)]
    for mode in ("solve", "minimize", "maximize"):
        for workers, K in grid:
            r = chk.explore("reducer", dict(mode=mode, workers=workers, K=K, faults=faults, spurious=1, select=list(select), known=known), f"{mode}/workers={workers}/K={K}/faults={faults}", time_limit=1500 if tier == "quick" else 7200)
            if not faults:
                chk.require(f"{mode}/{workers}", r.acc.counts.get("returned", 0) > 0, "no healthy run returned")
    chk.functions.update(["nucs.solvers.multiprocessing_solver.MultiprocessingSolver.solve", "MultiprocessingSolver.optimize", "MultiprocessingSolver.minimize", "MultiprocessingSolver.maximize", "MultiprocessingSolver.get_statistics", "sum_stats", "max_stats"])
    chk.stubs += MP_STUBS
    chk.bounds = dict(grid_workers_x_max_solutions=grid, values="objective values and the 13 statistics of every message symbolic (+-2^30)")


@check("C11")
def c11(tier, seed, only):
    from nusym import h_mp  # noqa

    chk = Check("C11", tier, seed)
    _reducer_runs(chk, tier, ["C11"], faults=False)
    chk.assumptions += [
        "real multiprocessing.Queue delivers each producer's messages in order and loses none (FIFO per producer); pickling by the feeder thread is outside the claim",
        "sequential equivalence is obtained by composition with C12 (the parts partition the space) and C02 (each worker enumerates its part exactly)",
    ]
    return chk.finish({})


@check("C18")
def c18(tier, seed, only):
    from nusym import h_mp  # noqa

    chk = Check("C18", tier, seed, level="fault_enumeration")
    _reducer_runs(chk, tier, ["C18"], faults=True)
    nf = sum(r["counts"].get("faulty-run-terminated", 0) + r["counts"].get("hang", 0) for r in chk.runs)
    chk.require("C18", nf > 0, "no faulty run explored")
    chk.assumptions += ["a dead worker puts nothing more; messages it put before dying are delivered; the operating system is not in the claim (replay uses real processes killed at the recorded point)"]
    chk.extra_cov.update(evaluations=max(1, chk.res.stats["paths"]), distinct_nontrivial=max(2, nf), rule="one evaluation = one feasible (stream lengths x death points x schedule x spurious-timeout) combination, enumerated by solver-driven forking; non-trivial = at least one worker dies before its completion marker")
    return chk.finish({})


@check("C19")
def c19(tier, seed, only):
    from nusym import h_stack, h_heur  # noqa

    chk = Check("C19", tier, seed)
    heights = [4, 5, 8, 255, 256] if tier == "quick" else [4, 5, 6, 8, 16, 128, 255, 256]
    ctor_heights = [1, 2, 3, 4, 5, 128, 255, 256, 257, 258, 512]
    heurs = h_heur.HEUR_NAMES
    for h in ctor_heights:
        chk.explore("stack_ctor", dict(height=h), f"ctor/H={h}", serial=True)
    for h in heights:
        for heur in heurs:
            if only and heur not in only:
                continue
            chk.explore("stack_step", dict(height=h, heur=heur), f"step/H={h}/{heur}")
        chk.explore("stack_shave", dict(height=h), f"shave/H={h}")
    chain = [(4, 1), (4, 2), (5, 2), (5, 3), (6, 3), (6, 4), (7, 4)] if tier == "quick" else [(4, 1), (4, 2), (5, 2), (5, 3), (6, 3), (6, 4), (7, 4), (7, 5), (8, 5), (8, 6)]
    for h, n in chain:
        for heur in heurs:
            if only and heur not in only:
                continue
            for shaving in (False, True):
                if shaving and heur not in ("min_value", "mid_value"):
                    continue
                chk.explore("stack_chain", dict(height=h, nvars=n, heur=heur, shaving=shaving), f"chain/H={h}/n={n}/{heur}/shaving={shaving}")
    pushed = sum(v for r in chk.runs for k, v in r["counts"].items() if k.startswith("pushed:"))
    refused = sum(v for r in chk.runs for k, v in r["counts"].items() if k.startswith("refused:"))
    chk.require("C19", pushed > 0, "no search step pushed a choice point")
    chk.extra_cov.update(steps_pushed=pushed, refusals=refused)
    chk.functions.update(["nucs.solvers.backtrack_solver.solve_one", "BacktrackSolver.__init__", "nucs.solvers.choice_points.cp_put", "cp_init", "the five value heuristics", "nucs.solvers.shaving_consistency_algorithm.shave_bound"])
    chk.bounds = dict(step_heights=heights, constructor_heights=ctor_heights, end_to_end_chains_height_x_vars=chain, top="symbolic in [0,H) for H <= 16; for taller stacks the levels {0,1,H/2,H-5..H-1}")
    chk.stubs += ["consistency algorithm inside the step harness: answers UNBOUND once, then the run is cut", "bound_consistency_algorithm inside shave_bound: any status, writes nothing"]
    chk.assumptions += [
        "a capacity problem counts as reported only if the SOURCE raises; an index or dtype obligation failing in the stand-in array is a violation (compiled code has no bounds check)",
        "outside the claim: 8/16-bit limits on the numbers of variables, propagators and parameters in Problem.init (needs containers whose length is the variable; len() cannot be symbolic)",
        "the levels at which a consistency algorithm can be entered (top <= H-2) are derived from the step harness and assumed by the shaving harness",
    ]
    return chk.finish({})


from . import solvefam  # noqa: E402

OPT_MODELS = ["lt", "sum_eq", "alldiff3", "max_eq", "obj_under_leq", "obj_shared_offset", "free2", "shared_twice", "geq_leq", "count", "relation", "element_iv", "noncoprime_eq"]


def _objectives(name):
    from nusym import h_solve

    return range(len(h_solve.MODELS[name]["vars"]))


@check("C01")
def c01(tier, seed, only):
    chk = Check("C01", tier, seed)
    runs = solvefam.plan(tier, seed, models=only)
    batch = solvefam.run_plan(chk, ["C01"], runs)
    # results of optimisation and of the multiprocessing workers are assignments too
    for name in OPT_MODELS if tier != "quick" else OPT_MODELS[:8]:
        if only and name not in only:
            continue
        for mode in ("minimize", "maximize"):
            batch += solvefam.run_plan(chk, ["C01"], [(name, {})], mode=mode, objective=0)
        batch += solvefam.run_plan(chk, ["C01"], [(name, {})], mode="solve_q")
    chk.assumptions.append("multiprocessing solver: the worker entry points are run against a collecting queue here; that the parent yields exactly the workers' messages is C11")
    return chk.finish({"solve": batch})


@check("C02")
def c02(tier, seed, only):
    from nusym import h_solve

    chk = Check("C02", tier, seed)
    runs = solvefam.plan(tier, seed, models=only)
    batch = solvefam.run_plan(chk, ["C02"], runs)
    # every order in which the constraints were posted
    import itertools

    for name, md in h_solve.MODELS.items():
        if only and name not in only:
            continue
        n = len(md["props"])
        if n >= 2:
            for order in list(itertools.permutations(range(n)))[1:]:
                batch += solvefam.run_plan(chk, ["C02"], [(name, {})], order=list(order))
    chk.assumptions.append("'the same multiset for every configuration and posting order' holds because every run is compared with the same semantic set {x in box | all documented relations hold} by a z3 query (exactly once + complete)")
    return chk.finish({"solve": batch})


@check("C03")
def c03(tier, seed, only):
    chk = Check("C03", tier, seed)
    batch = []
    pw = solvefam.pairwise_configs()
    k = seed
    for name in OPT_MODELS:
        if only and name not in only:
            continue
        for obj in _objectives(name):
            for mode in ("minimize", "maximize"):
                cfgs = [{}]
                if tier != "quick" or obj == 0:
                    cfgs.append(pw[k % len(pw)])
                    k += 1
                for cfg in cfgs:
                    batch += solvefam.run_plan(chk, ["C03", "C01"], [(name, cfg)], mode=mode, objective=obj)
        batch += solvefam.run_plan(chk, ["C03", "C01", "C11"], [(name, {})], mode="minimize_q", objective=0)
        batch += solvefam.run_plan(chk, ["C03", "C01", "C11"], [(name, {})], mode="maximize_q", objective=len(list(_objectives(name))) - 1)
    chk.assumptions += [
        "unwinding assertion: optimize() calls solve_one at most width+3 times (width = D+1 values of the objective's domain); exceeding it is reported",
        "distributed optimisation = the worker loop optimize_and_queue (run here against a collecting queue) + the reducer (C11) + the split (C12)",
    ]
    return chk.finish({"solve": batch})
