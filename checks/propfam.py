"""checks decided by the propagator harness (one real compute_domains call on a symbolic box)"""
from nusym import catalogue, h_prop
from nusym.runner import Check

PROP_ASSUMPTIONS = [
    "domain values and parameters lie within +-2^30 (+-2^26 for the linear constraints): int32/int64 wrap-around is outside the claim",
    "contracts assumed on the box: and/exactly_true domains within [0,1]; gcc values within [v0, v0+m); no_sub_cycle/scc successor values within [0,n)",
    "sizes are concrete: arities and parameter-vector lengths as listed in coverage.bounds; larger arities are outside the claim",
    "numba compiles the source faithfully (the interpreted semantics of the same source is what is executed symbolically)",
    "stand-in numpy/numba (validated on every run against the real build on one witness per path, see traces_validated_against_impl)",
]


def run_catalogue(chk: Check, select, algs=None, extra_flags=None):
    cat = catalogue.prop_catalogue(chk.tier)
    batch = []
    seen_status = {}
    from nusym.runner import load_known

    known = [k for k in load_known() if k.get("harness", "prop") == "prop" and (k["prop"] == chk.pid or k["prop"] == "C04")]
    jobs = []
    for cfg in cat:
        if algs and cfg["alg"] not in algs:
            continue
        sel = [s for s in select if s in cfg.get("only", select)]
        if not sel:
            continue
        flags = dict(loop_budget=catalogue.loop_budget(cfg), argsort_all_ties=not cfg.get("stable_ties", False), wrap_narrow=True)
        flags.update(extra_flags or {})
        label = f"{cfg['alg']}/n={cfg['n']}/params={cfg['params']}"
        if cfg.get("pin"):
            label += "/pinned=" + ",".join(f"{i}>{v}" for i, v in sorted(cfg["pin"].items())) + f"/width<={cfg.get('width')}"
        tl = 900.0 if chk.tier == "quick" else 3600.0
        jobs.append(dict(key="prop", params=dict(cfg=cfg, select=sel, known=known), label=label, time_limit=tl, flags=flags, cfg=cfg))
    for job, r in zip(jobs, chk.explore_many(jobs)):
        cfg, label = job["cfg"], job["label"]
        if r.acc.counts.get("budget-unlisted"):
            chk.inconclusive.append(f"{label}: {r.acc.counts['budget-unlisted']} path(s) exceeded the loop budget outside every listed C04 finding (no result to judge; see check C04)")
        batch.extend(dict(w, harness="prop") for w in r.acc.validate)
        st = seen_status.setdefault(cfg["alg"], set())
        st.update(k for k in r.acc.counts if k.startswith("status:"))
        chk.functions.add(f"nucs.propagators.{cfg['alg']}_propagator.compute_domains_{cfg['alg']}")
        chk.bounds.setdefault(cfg["alg"], []).append(dict(arity=cfg["n"], params=cfg["params"], hull_window_D=cfg.get("D"), **({"pinned": {str(i): v for i, v in cfg["pin"].items()}, "max_width_of_the_others": cfg.get("width")} if cfg.get("pin") else {})))
    # vacuity: every propagator must reach CONSISTENCY, and INCONSISTENCY unless it cannot fail by design
    for alg, sts in seen_status.items():
        chk.require(alg, "status:1" in sts or "status:2" in sts, "no path returned CONSISTENCY/ENTAILMENT")
        if alg not in ("dummy",):
            chk.require(alg, "status:0" in sts, "no path returned INCONSISTENCY")
    chk.assumptions.extend(PROP_ASSUMPTIONS)
    return batch
