"""checks decided by the whole-run harness (real Problem/BacktrackSolver on micro-models with symbolic bounds)"""
import itertools
import random

from nusym import h_solve
from nusym.runner import Check, load_known

CONS = ["bc", "shaving"]
VARH = ["first", "smallest", "greatest", "regret"]
DOMH = ["min", "max", "split", "mid", "cost"]

SOLVE_ASSUMPTIONS = [
    "model structure is concrete (1-4 shared domains, 1-4 variables, 0-3 propagators); initial bounds are symbolic with L <= lo <= hi <= L+D, L symbolic (|L| <= 2^20) unless a contract pins the values (then L = 0); offsets symbolic in [-2,2]; constraint parameters symbolic where marked",
    "cost tables of max_regret / min_cost in whole runs: three concrete families (all ties; two permutations of {1,2,3}), values within [0, D]; symbolic cost tables are explored by the one-call heuristic harnesses (C09, C04)",
    "stack height 4*domains+8; deeper searches are C19's subject",
    "each path's witness is re-run on the real build (real NumPy, interpreted; thorough: also Numba-compiled): solution sequence and statistics must match the symbolic run",
    "int32/int64 wrap-around outside the claim; Numba assumed faithful",
]


ALIAS_RUN = ("circuit3_alias", dict(decision=[3, 4, 0, 1, 2], domh="max"))


def pairwise_configs():
    """a small set of configurations covering every pair of values of (consistency, variable heuristic, value heuristic)"""
    allc = list(itertools.product(CONS, VARH, DOMH))
    need = set()
    for c in allc:
        need |= {("cv", c[0], c[1]), ("cd", c[0], c[2]), ("vd", c[1], c[2])}
    chosen = []
    while need:
        best = max(allc, key=lambda c: len({("cv", c[0], c[1]), ("cd", c[0], c[2]), ("vd", c[1], c[2])} & need))
        chosen.append(best)
        need -= {("cv", best[0], best[1]), ("cd", best[0], best[2]), ("vd", best[1], best[2])}
    return [dict(cons=c, varh=v, domh=d, table=i % 3) if (v == "regret" or d == "cost") else dict(cons=c, varh=v, domh=d) for i, (c, v, d) in enumerate(chosen)]


def plan(tier, seed, models=None, extra_default=True, underdetermined=None):
    """list of (model, cfg) runs: every model under the default configuration + a rotation of the pairwise set"""
    names = [m for m in h_solve.MODELS if (models is None or m in models) and not (tier == "quick" and h_solve.MODELS[m].get("thorough_only"))]
    pw = pairwise_configs()
    rnd = random.Random(seed)
    rnd.shuffle(pw)
    runs = []
    k = 0
    per_model = 2 if tier == "quick" else 6
    for name in names:
        if extra_default:
            runs.append((name, {}))
        for _ in range(per_model):
            runs.append((name, pw[k % len(pw)]))
            k += 1
    if tier != "quick":
        for name in ("lt", "alldiff3", "max_eq", "count", "shared_twice", "circuit3"):
            if name in names:
                for c, v, d in itertools.product(CONS, VARH, DOMH):
                    runs.append((name, dict(cons=c, varh=v, domh=d)))
    # targeted: the three-way split of mid_value / min_cost (interior value) under constraints with one-sided wake-up masks
    for name in ("lt", "geq_leq", "alldiff_lt", "max_leq_min_geq", "shared_offset_lt", "obj_under_leq", "circuit3"):
        if name in names:
            for varh in ("first", "smallest"):
                runs.append((name, dict(varh=varh, domh="mid")))
                runs.append((name, dict(varh=varh, domh="cost", table=1)))
    # decision-domain subsets that still determine every variable
    for name, dec in (("sum_eq", [0]), ("max_eq", [0, 1]), ("obj_shared_offset", [0])):
        if name in names:
            runs.append((name, dict(decision=dec)))
    # decisions on the table first, largest value first (the successors are then instantiated by propagation only)
    if "circuit3_alias" in names:
        runs.append(ALIAS_RUN)
    # decision-domain subsets that do NOT determine every variable: whatever is reported must still be a solution (C01); the
    # enumeration need not be complete (C02 is about full decision sets) and the search may end by refusing to go on
    if underdetermined is None:
        underdetermined = tier != "quick"  # quick tier: asked by C01 only (the property they are about)
    for name, dec in (("alldiff3", [0]), ("lt", [1]), ("alldiff_lt", [2]), ("queens_like", [1]), ("max_leq_min_geq", [0]), ("geq_leq", [0])):
        if name in names and underdetermined:
            runs.append((name, dict(decision=dec, underdetermined=True)))
            runs.append((name, dict(decision=dec, underdetermined=True, cons="shaving", domh="max")))
    seen, out = set(), []
    for name, cfg in runs:
        key = (name, tuple(sorted((k_, str(v_)) for k_, v_ in cfg.items())))
        if key not in seen:
            seen.add(key)
            out.append((name, cfg))
    return out


class Deferred:
    """collects whole-run explorations and executes them concurrently (Check.explore_many)"""

    def __init__(self, chk: Check):
        self.chk = chk
        self.jobs = []
        self.runs = []

    def add(self, select, runs, mode="solve", objective=0, time_limit=None, flags_extra=None, **kw):
        chk = self.chk
        known = [k for k in load_known() if k.get("harness") == "solve" and k["prop"] in select]
        for name, cfg in runs:
            label = f"{mode}/{name}/{cfg or 'default'}" + (f"/obj={objective}" if mode != "solve" else "") + (f"/{kw}" if kw else "")
            params = dict(model=name, cfg=cfg, mode=mode, select=list(select), objective=objective, known=known)
            params.update(kw)
            self.jobs.append(dict(key="solve", params=params, label=label, time_limit=time_limit or (900 if chk.tier == "quick" else 3600), flags=dict(dict(loop_budget=6000), **(flags_extra or {}))))
            self.runs.append((name, cfg))
        return self

    def run(self):
        chk = self.chk
        batch = []
        for job, r in zip(self.jobs, chk.explore_many(self.jobs)):
            label = job["label"]
            for v in r.new_violations:
                # a run made on behalf of this property: whatever it finds counts for it (the query family is kept)
                if v.get("prop") != chk.pid:
                    v["query_family"] = v.get("prop")
                    v["prop"] = chk.pid
            batch.extend(r.acc.validate[:25] if chk.tier == "quick" else r.acc.validate)
            if r.acc.counts.get("budget-unlisted"):
                chk.inconclusive.append(f"{label}: {r.acc.counts['budget-unlisted']} path(s) exceeded a loop budget (no result to judge; see check C04)")
            chk.require(label, any(k.startswith("solutions:") for k in r.acc.counts) or any(k.startswith("violation") or k.startswith("abort") or k.startswith("obligation") for k in r.acc.counts), "no run completed")
        _describe(chk, self.runs)
        self.jobs, self.runs = [], []
        return batch


def run_plan(chk: Check, select, runs, mode="solve", objective=0, time_limit=None, flags_extra=None, **kw):
    return Deferred(chk).add(select, runs, mode=mode, objective=objective, time_limit=time_limit, flags_extra=flags_extra, **kw).run()


def _describe(chk, runs):
    chk.functions.update([
        "nucs.problems.problem.Problem.__init__/add_propagator/init", "nucs.solvers.backtrack_solver.BacktrackSolver.__init__/solve/optimize/minimize/maximize/get_statistics", "solve_one", "reset",
        "nucs.solvers.bound_consistency_algorithm.bound_consistency_algorithm", "nucs.solvers.shaving_consistency_algorithm.shaving_consistency_algorithm/shave_bound", "nucs.solvers.choice_points.cp_init/cp_put/backtrack",
        "nucs.solvers.solver.get_solution/is_solved/decrease_max/increase_min", "nucs.propagators.propagators.pop_propagator/add_propagators", "the 4 variable heuristics", "the 5 value heuristics", "compute_domains_* / get_triggers_* / get_complexity_* of the posted constraints",
    ])
    chk.bounds.setdefault("models", sorted({n for n, _ in runs}))
    chk.bounds.setdefault("configurations", [c for _, c in runs if c][:60])
    chk.bounds["width_D"] = "2 (1 or 3 for some models, see nusym/h_solve.py MODELS)"
    for a in SOLVE_ASSUMPTIONS:
        if a not in chk.assumptions:
            chk.assumptions.append(a)
